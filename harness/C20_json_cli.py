"""C20 -- JSON serialisation is lossless; structural equality; CLI reports the library's tree."""
import io
import json
import sys

sys.path.insert(0, "/verif")
from vlib import prelude  # noqa: F401
from vlib import hx
from vlib.hx import Ob, bytes_params

from multidecoder.json_conversion import as_node, json_to_tree, node_to_dict, tree_to_json
from multidecoder.node import Node
from multidecoder.query import make_label, string_summary

LABELS = ["", "t", "network.url", "é-ünï", "a/b>c", "中", "x\"y\\z"]


def template(vals, ints, lab, nv=2):
    """root + 2 children + 1 grandchild; values of `nv` bytes each from `vals` (4*nv ints);
    start/end from `ints` (8 ints); labels by index list `lab` (8 small ints)"""
    v = [bytes(vals[i * nv:(i + 1) * nv]) for i in range(4)]
    g = Node(LABELS[lab[6] % 7], v[3], LABELS[lab[7] % 7], ints[6], ints[7])
    c0 = Node(LABELS[lab[2] % 7], v[1], LABELS[lab[3] % 7], ints[2], ints[3], children=[g])
    c1 = Node(LABELS[lab[4] % 7], v[2], LABELS[lab[5] % 7], ints[4], ints[5])
    return Node(LABELS[lab[0] % 7], v[0], LABELS[lab[1] % 7], ints[0], ints[1], children=[c0, c1])


def fields_equal(a, b):
    """reference structural equality: every field of every descendant"""
    if len(a.children) != len(b.children):
        return False
    acc = (a.start == b.start) & (a.end == b.end)
    if a.type != b.type or a.obfuscation != b.obfuscation:
        return False
    if len(a.value) != len(b.value):
        return False
    for x, y in zip(a.value, b.value):
        acc = acc & (x == y)
    for ca, cb in zip(a.children, b.children):
        sub = fields_equal(ca, cb)
        if sub is False:
            return False
        acc = acc & sub
    return acc


def parents_ok(n):
    return all(c.parent is n and parents_ok(c) for c in n.children)


def dict_round_trip(v0, v1, v2, v3, i0, i1, i2, i3, i4, i5, i6, i7):
    t = template([v0, v1, v2, v3], [i0, i1, i2, i3, i4, i5, i6, i7], [0, 1, 2, 3, 4, 5, 6, 0], nv=1)
    d = node_to_dict(t)
    if set(d.keys()) != {"type", "value", "obfuscation", "start", "end", "children"}:
        return hx.fail("node_to_dict: wrong keys", keys=list(d.keys())), True
    r = as_node(d)
    if not fields_equal(t, r) or not parents_ok(r) or r.parent is not None:
        return hx.fail("as_node(node_to_dict(t)) differs from t / wrong parent links", t=t, r=r), True
    if not (r == t):
        return hx.fail("round-tripped tree not equal under Node.__eq__", t=t, r=r), True
    return True, True


_INTS = [(f"i{k}", "int:-3:300") for k in range(8)]
OBLIGATIONS = [
    Ob("dict_round_trip", dict_round_trip, bytes_params("v", 4) + _INTS, tier="both", timeout=600, layer="B",
       functions=["multidecoder.json_conversion.node_to_dict", "multidecoder.json_conversion.as_node", "multidecoder.node.Node.__eq__"],
       bound="tree template root+2 children+1 grandchild; every value 1 free byte (all 256 values), every start/end a free int, labels incl. non-ASCII"),
]


def pin(x, lo, hi):
    for v in range(lo, hi + 1):
        if x == v:
            return v
    raise AssertionError("out of range")


def text_round_trip(i0, i1, l0):
    # the json encoder/decoder are C accelerators that reject symbolic values: ints and the label index are pinned by
    # case split (solver-driven enumeration); value bytes and ints are symbolic in dict_round_trip.
    i0, i1, l0 = pin(i0, -1, 6), pin(i1, -1, 6), pin(l0, 0, 6)
    i2, i3, i4, i5, i6, i7 = i1, i0, 0, i0 + i1, 7, i1
    l1, l2 = (l0 + 1) % 7, (l0 + 3) % 7
    # values are concrete here (the json encoder is a C accelerator that rejects symbolic strings);
    # value bytes are free in dict_round_trip
    t = template([0, 255, 34, 92], [i0, i1, i2, i3, i4, i5, i6, i7], [l0, l1, l2, l0, l1, l2, 5, 6], nv=1)
    try:
        s = tree_to_json(t)
        d = json.loads(s)  # valid JSON
        r = json_to_tree(s)
    except Exception as e:  # noqa: BLE001
        return hx.fail(f"json round trip raised {type(e).__name__}: {e}", t=t), True
    if not isinstance(d, dict) or d.get("value") != t.value.hex():
        return hx.fail("tree_to_json: value is not recorded as hex", s=s), True
    if not fields_equal(t, r) or not parents_ok(r):
        return hx.fail("json_to_tree(tree_to_json(t)) differs from t", t=t, r=r), True
    return True, True


OBLIGATIONS.append(Ob("text_round_trip", text_round_trip,
                      [("i0", "int:-1:6"), ("i1", "int:-1:6"), ("l0", "int:0:6")],
                      tier="both", timeout=900, layer="B",
                      functions=["multidecoder.json_conversion.tree_to_json", "multidecoder.json_conversion.json_to_tree"],
                      bound="same template, concrete value bytes (00 ff 22 5c), two free ints in -1..6 feeding all eight span fields, labels drawn by free index from a set incl. non-ASCII and JSON metacharacters"))


def eq_structural(a0, a1, a2, a3, b0, b1, b2, b3, i0, i1, i2, i3, i4, i5, i6, i7, j0, j1, j2, j3, j4, j5, j6, j7, la, lb, drop):
    """two trees over one template with all fields free: equal iff every field of every descendant is equal;
    `drop` removes the last child / grandchild of the second tree (prefix shapes)"""
    t1 = template([a0, a1, a2, a3], [i0, i1, i2, i3, i4, i5, i6, i7], [la, 1, 2, 3, 4, 5, 6, 0], nv=1)
    t2 = template([b0, b1, b2, b3], [j0, j1, j2, j3, j4, j5, j6, j7], [lb, 1, 2, 3, 4, 5, 6, 0], nv=1)
    if drop == 1:
        t2.children.pop()
    elif drop == 2:
        t2.children[0].children.pop()
    elif drop == 3:
        t1.children[0].children.pop()
    got = t1 == t2
    want = fields_equal(t1, t2)
    if bool(got) != bool(want):
        return hx.fail("Node.__eq__ is not structural equality", t1=t1, t2=t2, got=got), True
    if (t1 != t2) == bool(want):
        return hx.fail("Node.__ne__ inconsistent", t1=t1, t2=t2), True
    return True, bool(want)


OBLIGATIONS.append(Ob("eq_structural", eq_structural,
                      bytes_params("a", 4) + bytes_params("b", 4) + _INTS + [(f"j{k}", "int:-3:300") for k in range(8)]
                      + [("la", "int:0:1"), ("lb", "int:0:1"), ("drop", "int:0:3")],
                      tier="both", timeout=900, layer="B", functions=["multidecoder.node.Node.__eq__"],
                      bound="two trees of the template shape (and its prefix shapes), all ints and value bytes free"))


def summary_lines(v0, l0, l1):
    l0, l1 = pin(l0, 0, 6), pin(l1, 0, 6)
    t = template([65, v0, 0, 255], [0, 1, 0, 1, 0, 1, 0, 1], [0, 0, l0, l1, l1, l0, (l0 + 2) % 7, (l1 + 3) % 7], nv=1)
    lines = string_summary(t)
    nodes = [t.children[0], t.children[0].children[0], t.children[1]]  # pre-order
    if len(lines) != 3:
        return hx.fail("string_summary: not one line per node", lines=lines), True
    for n, line in zip(nodes, lines):
        chain = []
        p = n
        anc = []
        while p is not None:
            anc.append(p)
            p = p.parent
        for a in reversed(anc):
            # per ancestor (outermost first): the obfuscation that was removed, then the resulting type
            if a.obfuscation:
                chain.append(">" + a.obfuscation)
            if a.type:
                chain.append(a.type)
        want = "/".join(chain) + " " + repr(bytes(n.value))[2:-1]
        if line != want:
            return hx.fail("string_summary line wrong", line=line, want=want), True
        if make_label(n) != "/".join(chain):
            return hx.fail("make_label wrong", got=make_label(n)), True
    return True, True


OBLIGATIONS.append(Ob("summary_lines", summary_lines, [("v0", "byte"), ("l0", "int:0:6"), ("l1", "int:0:6")],
                      pre="v0 in (0, 9, 10, 34, 39, 65, 92, 127, 128, 255)",
                      tier="both", timeout=600, layer="B", functions=["multidecoder.query.string_summary", "multidecoder.query.make_label"],
                      bound="template tree, one value byte from 10 representative values, two free label indices"))


# ---- CLI wiring ---------------------------------------------------------------------------------------------

def cli(mode, use_stdin, d1):
    """main() with sys.argv / stdin / stdout / open / Multidecoder stubbed: scan receives exactly the bytes; --json
    prints exactly tree_to_json(tree); the default prints string_summary; --replace prints squash_replace."""
    import multidecoder.__main__ as M
    import warnings

    mode, use_stdin = pin(mode, 0, 2), pin(use_stdin, 0, 1)
    for v in (0, 10, 34, 65, 92, 127, 128, 255):  # case split: everything below runs on concrete bytes
        if d1 == v:
            d1 = v
            break
    data = bytes([0x41, d1, 0xFF])
    if d1 == 0 and mode != 2:
        data = b""  # the empty input is an input too: the library returns a bare root for it
    tree = Node("", data, "", 0, len(data), children=[Node("k", b"Z", "o", 1, 2, children=[Node("m", b"q", "", 0, 1)])])
    seen = {}

    class FakeMD:
        def __init__(self, decoders=None):
            seen["decoders"] = decoders

        def scan(self, got, *a, **k):
            seen["data"] = got
            return tree

    class Buf:
        def __init__(self):
            self.buffer = io.BytesIO()
            self.text = io.StringIO()

        def write(self, s):
            return self.text.write(s)

        def flush(self):
            pass

    out = Buf()

    class In:
        buffer = io.BytesIO(data)

    argv = ["multidecoder"] + {0: [], 1: ["--json"], 2: ["--replace"]}[mode] + ([] if use_stdin else ["/nonexistent/input.bin"])
    real = (M.Multidecoder, sys.argv, sys.stdout, sys.stdin, M.__dict__.get("open"))
    M.Multidecoder = FakeMD
    M.open = lambda path, mode_="rb": io.BytesIO(data)
    sys.argv, sys.stdout, sys.stdin = argv, out, In
    try:
        with warnings.catch_warnings():
            warnings.simplefilter("ignore")
            M.main()
    finally:
        M.Multidecoder, sys.argv, sys.stdout, sys.stdin = real[0], real[1], real[2], real[3]
        if real[4] is None:
            del M.open
        else:
            M.open = real[4]
    if seen.get("data") != data or seen.get("decoders") is not None:
        return hx.fail("main(): scan did not receive exactly the input bytes / default registry", seen=seen), True
    text = out.text.getvalue()
    if mode == 1:
        if text != tree_to_json(tree) + "\n":
            return hx.fail("--json output is not tree_to_json(tree)", text=text), True
    elif mode == 0:
        if text != "".join(s + "\n" for s in string_summary(tree)):
            return hx.fail("default output is not one string_summary line per node", text=text), True
    else:
        if out.buffer.getvalue() != tree.flatten():
            return hx.fail("--replace output is not the flattened tree", got=out.buffer.getvalue(), want=tree.flatten()), True
    return True, True


OBLIGATIONS.append(Ob("cli_wiring", cli, [("mode", "int:0:2"), ("use_stdin", "int:0:1"), ("d1", "byte")], tier="both",
                      pre="d1 in (0, 10, 34, 65, 92, 127, 128, 255)",

                      timeout=600, layer="B", functions=["multidecoder.__main__.main"],
                      stubs=["sys.argv, sys.stdin, sys.stdout, open, Multidecoder (returns a fixed template tree over the input)"],
                      bound="3 input bytes, the middle one free; modes default/--json/--replace; file argument or stdin"))


def dict_round_trip2(v0, v1, v2, v3, v4, v5, v6, v7, i0, i1, i2, i3, i4, i5, i6, i7):
    t = template([v0, v1, v2, v3, v4, v5, v6, v7], [i0, i1, i2, i3, i4, i5, i6, i7], [0, 1, 2, 3, 4, 5, 6, 0], nv=2)
    r = as_node(node_to_dict(t))
    if not fields_equal(t, r) or not parents_ok(r) or r.parent is not None or not (r == t):
        return hx.fail("as_node(node_to_dict(t)) differs from t", t=t, r=r), True
    return True, True


OBLIGATIONS.append(Ob("dict_round_trip_2byte_values", dict_round_trip2, bytes_params("v", 8) + _INTS, tier="thorough", timeout=1500, layer="B",
                      functions=["multidecoder.json_conversion.node_to_dict", "multidecoder.json_conversion.as_node"],
                      bound="template tree, every value 2 free bytes, every start/end a free int"))
