"""C15 -- string concatenation, reversal and replacement are evaluated exactly (layer C)."""
import sys

sys.path.insert(0, "/verif")
from vlib import prelude  # noqa: F401
from vlib import hx
from vlib.ref.codecs import replace_all, same_bytes
from vlib.tmpl import Tmpl

from decoders_common import k_contract, mk_template_ob

from multidecoder.decoders.concat import find_concat
from multidecoder.decoders.replace import find_js_regex_replace, find_powershell_replace, find_replace, find_vba_replace
from multidecoder.decoders.reverse import find_reverse
from multidecoder.decoders.vba import find_strreverse

WS = "((9 <= {x} <= 13) or {x} == 32 or {x} == 95)"  # [\s_]
NEUTRAL = "({x} != 34 and {x} != 39)"  # a neighbour that cannot extend a string literal
# literal contents: "no quote characters" (statement); in the double-quote dialect the escape
# introducers ` and \\ are excluded as well (tests/test_concat.py pins \\" as an escape)
SQ = "({x} != 39 and {x} != 34)"
DQ = "({x} != 34 and {x} != 39 and {x} != 96 and {x} != 92)"
WSS = "((9 <= {x} <= 13) or {x} == 32)"  # \\s


def bare_op(*cs):
    """literal content that is itself a bare joining operator: [\\s_]*(&|\\+)[\\s_]*  (&amp; needs 5 bytes)"""
    def ws(c):
        return (9 <= c <= 13) or c == 32 or c == 95
    n = len(cs)
    for i in range(n):
        if (cs[i] == 38 or cs[i] == 43) and all(ws(c) for c in cs[:i]) and all(ws(c) for c in cs[i + 1:]):
            return True
    return False


def one_hit(dec, data, start, end, type_, obf, want_value, what):
    ok, hits = k_contract(dec, data, what)
    if not ok:
        return False, True
    if len(hits) != 1:
        return hx.fail(f"{what}: expected exactly one node", data=data, hits=hits), True
    h = hits[0]
    if not (h.start == start and h.end == end):
        return hx.fail(f"{what}: node does not cover exactly the whole expression [{start}:{end}]", data=data, hit=h), True
    if h.type != type_ or h.obfuscation != obf:
        return hx.fail(f"{what}: wrong type/label", data=data, hit=h, want=(type_, obf)), True
    if not same_bytes(h.value, want_value):
        return hx.fail(f"{what}: wrong value", data=data, hit=h, want=bytes(want_value) if not hx.SYMBOLIC else None), True
    return True, True


def cls(n, c):
    return (n, c)


from vlib.tmpl import CLASSES  # noqa: E402

CLASSES["ws_"] = WS
CLASSES["wss"] = WSS
CLASSES["neutral"] = NEUTRAL
CLASSES["sq"] = SQ
CLASSES["dq"] = DQ

OBLIGATIONS = []


def _add(name, tmpl, fn, tier="both", timeout=300, extra_pre="", funcs=()):
    OBLIGATIONS.append(mk_template_ob(globals(), name, tmpl, fn, tier=tier, timeout=timeout, extra_pre=extra_pre,
                                      functions=funcs, bound="exactness oracle;"))


# ---- concatenation -------------------------------------------------------------------------

def _concat2(q1, q2, sep, n1, n2, pre_n=1, suf_n=1):
    c1 = "sq" if q1 == b"'" else "dq"
    c2 = "sq" if q2 == b"'" else "dq"
    t = Tmpl((pre_n, "neutral"), q1, (n1, c1), q1, sep, q2, (n2, c2), q2, (suf_n, "neutral"))

    def body(data):
        a = data[pre_n + 1: pre_n + 1 + n1]
        b0 = pre_n + 1 + n1 + 1 + len(sep) + 1
        b = data[b0: b0 + n2]
        return one_hit(find_concat, data, pre_n, len(data) - suf_n, "string", "concatenation", list(a) + list(b), "find_concat")

    names = [n for n, _ in t.params]
    lit1 = names[pre_n: pre_n + n1]
    lit2 = names[pre_n + n1: pre_n + n1 + n2]
    pre = " and ".join(f"not bare_op({', '.join(l)})" for l in (lit1, lit2) if l)
    return t, body, pre


F_CONCAT = ["multidecoder.decoders.concat.find_concat"]
for nm, (q1, q2, sep, n1, n2) in {
    "concat_sq_plus": (b"'", b"'", b"+", 2, 2),
    "concat_dq_amp": (b'"', b'"', b" & ", 2, 1),
    "concat_mixed_amp_entity": (b"'", b'"', b"&amp;", 1, 2),
    "concat_empty_left": (b"'", b"'", b" + ", 0, 2),
}.items():
    t, body, pre = _concat2(q1, q2, sep, n1, n2)
    _add(nm, t, body, extra_pre=pre, funcs=F_CONCAT)

# free separator whitespace, three parts
_t3 = Tmpl(b"'", (1, "sq"), b"'", (1, "ws_"), b"+", (1, "ws_"), b'"', (1, "dq"), b'"', b"&", b"'", (1, "sq"), b"'")


def _concat3(data):
    return one_hit(find_concat, data, 0, len(data), "string", "concatenation", [data[1], data[7], data[11]], "find_concat")


_add("concat_three_parts_ws", _t3, _concat3, extra_pre="not bare_op(h0) and not bare_op(h3) and not bare_op(h4)", funcs=F_CONCAT)

_t3b = Tmpl(b"'", (3, "sq"), b"'+'", (2, "sq"), b"'")


def _concat_3_2(data):
    return one_hit(find_concat, data, 0, len(data), "string", "concatenation", list(data[1:4]) + list(data[7:9]), "find_concat")


_add("concat_sq_3_2", _t3b, _concat_3_2, tier="thorough", timeout=1800,
     extra_pre="not bare_op(h0, h1, h2) and not bare_op(h3, h4)", funcs=F_CONCAT)

# ---- reversal ---------------------------------------------------------------------------------

def _rev(dec, head, q, n, type_, obf, what, wsn=0):
    c = "sq" if q == b"'" else "dq"
    t = Tmpl((1, "neutral"), head, (wsn, "wss") if wsn else b"", q, (n, c), q, b")", 1)

    def body(data):
        s0 = 1 + len(head) + wsn + 1
        lit = list(data[s0: s0 + n])
        # the byte before the expression must not be a letter of "reversed"/"StrReverse" prefix -- any byte is fine:
        return one_hit(dec, data, 1, len(data) - 1, type_, obf, lit[::-1], what)

    return t, body


for nm, (dec, head, q, n, type_, obf, wsn) in {
    "reverse_sq3": (find_reverse, b"reverse(", b"'", 3, "string", "reverse", 0),
    "reversed_dq2_ws": (find_reverse, b"reversed(", b'"', 2, "string", "reverse", 1),
    "reverse_empty": (find_reverse, b"REVERSE(", b"'", 0, "string", "reverse", 1),
    "strreverse_dq3": (find_strreverse, b"StrReverse(", b'"', 3, "vba.string", "vba.reverse", 0),
    "strreverse_sq1_ws": (find_strreverse, b"strreverse(", b"'", 1, "vba.string", "vba.reverse", 1),
}.items():
    t, body = _rev(dec, head, q, n, type_, obf, dec.__name__, wsn)
    _add(nm, t, body, funcs=["multidecoder.decoders." + dec.__module__.split(".")[-1] + "." + dec.__name__,
                             "multidecoder.hit.find_and_deobfuscate"])

# ---- replacement ---------------------------------------------------------------------------------

def _repl(dec, fmt, q, nx, na, nb, type_, obf):
    """fmt: list of items 'x' 'a' 'b' or literal bytes"""
    c = "sq" if q == b"'" else "dq"
    segs = [(1, "neutral")]
    offs = {}
    pos = 1
    for it in fmt:
        if it in ("x", "a", "b"):
            n = {"x": nx, "a": na, "b": nb}[it]
            segs += [q, (n, c), q]
            offs[it] = (pos + 1, n)
            pos += n + 2
        elif it == "A":  # bare regex pattern (js dialect): metacharacter-free
            segs += [(na, "rxlit")]
            offs["a"] = (pos, na)
            pos += na
        else:
            segs.append(it)
            pos += len(it)
    t = Tmpl(*segs)
    end = pos

    def body(data):
        x = list(data[offs["x"][0]: offs["x"][0] + nx])
        a = list(data[offs["a"][0]: offs["a"][0] + na])
        b = list(data[offs["b"][0]: offs["b"][0] + nb])
        return one_hit(dec, data, 1, end, type_, obf, replace_all(x, a, b), dec.__name__)

    return t, body


CLASSES["rxlit"] = ("({x} not in (47, 91, 93, 40, 41, 123, 125, 92, 46, 43, 42, 63, 94, 36, 44) and {x} != 10)")

F_REPL = ["multidecoder.decoders.replace"]
for nm, (dec, fmt, q, nx, na, nb, type_, obf) in {
    "replace_method_sq": (find_replace, ["x", b".replace(", "a", b",", "b", b")"], b"'", 3, 1, 1, "string", "replace"),
    "replace_method_dq_ws": (find_replace, ["x", b".Replace( ", "a", b" , ", "b", b" )"], b'"', 2, 1, 2, "string", "replace"),
    "replace_a2": (find_replace, ["x", b".replace(", "a", b",", "b", b")"], b"'", 3, 2, 0, "string", "replace"),
    "replace_vba": (find_vba_replace, [b"Replace(", "x", b",", "a", b",", "b", b")"], b'"', 3, 1, 1, "vba.string", "vba.replace"),
    "replace_powershell": (find_powershell_replace, ["x", b" -replace ", "a", b",", "b"], b"'", 3, 1, 1, "powershell.string", "replace"),
    "replace_js_regex": (find_js_regex_replace, ["x", b".replace(/", "A", b"/g,", "b", b")"], b"'", 3, 1, 1, "javascript.string", "replace"),
}.items():
    t, body = _repl(dec, fmt, q, nx, na, nb, type_, obf)
    _add(nm, t, body, funcs=F_REPL)

# thorough: longer literals
t, body = _rev(find_reverse, b"reverse(", b"'", 5, "string", "reverse", "find_reverse", 0)
_add("reverse_sq5", t, body, tier="thorough", timeout=1500, funcs=["multidecoder.decoders.reverse.find_reverse"])
t, body = _repl(find_replace, ["x", b".replace(", "a", b",", "b", b")"], b"'", 4, 2, 2, "string", "replace")
_add("replace_x4_a2_b2", t, body, tier="thorough", timeout=2400, funcs=F_REPL)
t, body, pre_ = _concat2(b"'", b"'", b" + ", 3, 3, pre_n=0, suf_n=0)
_add("concat_sq_3_3", t, body, extra_pre=pre_, tier="thorough", timeout=2400, funcs=F_CONCAT)
t, body, pre_ = _concat2(b'"', b"'", b"&amp;", 2, 2, pre_n=2, suf_n=2)
_add("concat_mixed_2_2_embed2", t, body, extra_pre=pre_, tier="thorough", timeout=2400, funcs=F_CONCAT)
t, body = _repl(find_vba_replace, [b"Replace( ", "x", b" , ", "a", b" , ", "b", b" )"], b'"', 6, 2, 2, "vba.string", "vba.replace")
_add("replace_vba_x6_a2_b2", t, body, tier="thorough", timeout=2400, funcs=F_REPL)
t, body = _repl(find_powershell_replace, ["x", b" -replace ", "a", b" , ", "b"], b"'", 5, 3, 1, "powershell.string", "replace")
_add("replace_ps_x5_a3_b1", t, body, tier="thorough", timeout=2400, funcs=F_REPL)
