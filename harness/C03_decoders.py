"""C03 (decoder part) -- decoder-supplied sub-structure honours the hit contract K: re-uses the K obligations of
C01_decoders for the decoders that return pre-assembled children or hand-computed ends."""
import sys

sys.path.insert(0, "/verif")
from vlib import prelude  # noqa: F401
from vlib.hx import Ob, bytes_params
from vlib import hx

import C01_decoders as _C01
from C01_decoders import *  # noqa: F401,F403  (the obligation bodies must be attributes of this module)

from multidecoder.multidecoder import Multidecoder

_WANT = ("network_find_urls", "path_find_windows_path", "shell_find_powershell_strings", "shell_find_cmd_strings",
         "base64_find_FromBase64String_xor", "hex_find_FromHexString_xor", "pe_file", "network_find_ips")
OBLIGATIONS = [ob for ob in _C01.OBLIGATIONS if any(w in ob.name for w in _WANT)]


def scan_root(d0, d1, d2, d3, depth):
    """Multidecoder(decoders=[]).scan(data): the root carries the unmodified input, empty type and obfuscation,
    span 0..len(input), no parent, no children"""
    data = bytes([d0, d1, d2, d3])
    root = Multidecoder(decoders=[lambda _d: []]).scan(data, depth)
    ok = (root.type == "" and root.obfuscation == "" and root.parent is None and root.start == 0 and root.end == 4
          and not root.children and len(root.value) == 4 and all(a == b for a, b in zip(root.value, data)))
    if not ok:
        return hx.fail("scan(): root construction", data=data, root=root), True
    return True, True


OBLIGATIONS.append(Ob("scan_root_construction", scan_root, bytes_params("d", 4) + [("depth", "int:-2:12")], tier="both", timeout=120,
                      layer="B", functions=["multidecoder.multidecoder.Multidecoder.scan"], bound="4 free bytes, free depth limit"))
