"""Shared construction of symbolic hit configurations for the layer-A (engine) harnesses.

A *pattern* is a string of tokens, one per root hit (registry order = token order):
  P plain (value = the covered text)          V plain, other case variant
  D decoded to a fresh text; the lower-case letters that follow describe its sub-hits:
      p plain sub-hit, v case-variant sub-hit, d sub-hit decoded to a fresh leaf text,
      w sub-hit whose value restates the whole decoded text
  C decoded, carries 1 decoder-supplied child (whose value is a fresh text)
  W "decoded" value that restates the whole searched text
  X value equal to the previous hit's value    E empty value (must be ignored)
  Z zero-length span with a fresh non-empty value
Spans, text lengths and type codes are free integers; kinds and the depth limit are
concrete per obligation.  `params(pattern)` lists the parameters with their domains and
`pre(pattern)` the well-formedness precondition (the hit contract K of DESIGN 2).
"""
import re
import sys

sys.path.insert(0, "/verif")
from vlib import prelude  # noqa: F401
from vlib import hx
from vlib.av import AV
from vlib.synth import ChildSpec, Config, HitSpec, TY

from multidecoder.multidecoder import Multidecoder
from multidecoder.node import Node

MAXL = 24
TOKEN_RE = re.compile(r"[PVCWXEZ]|D[pvdw]*")


def tokens(pattern: str):
    toks = TOKEN_RE.findall(pattern)
    assert "".join(toks) == pattern, pattern
    return toks


def params(pattern: str, types=True, extra=()):
    ps = [("L", f"int:1:{MAXL}")]
    for i, tok in enumerate(tokens(pattern)):
        ps += [(f"a{i}", f"int:0:{MAXL}"), (f"b{i}", f"int:0:{MAXL}")]
        if types:
            ps.append((f"t{i}", "int:0:1"))
        k = tok[0]
        if k in "DC":
            ps.append((f"M{i}", f"int:1:{MAXL}"))
        if k == "D":
            for j, _sk in enumerate(tok[1:]):
                ps += [(f"c{i}_{j}", f"int:0:{MAXL}"), (f"d{i}_{j}", f"int:0:{MAXL}")]
                if types:
                    ps.append((f"u{i}_{j}", "int:0:1"))
        if k == "C":
            ps += [(f"e{i}", f"int:0:{MAXL}"), (f"f{i}", f"int:0:{MAXL}")]
    return ps + list(extra)


def pre(pattern: str, inbounds=True):
    cs = []
    for i, tok in enumerate(tokens(pattern)):
        k = tok[0]
        if k == "Z":
            cs.append(f"0 <= a{i} == b{i} <= L")
        elif inbounds:
            cs.append(f"a{i} < b{i} <= L")
        else:
            cs.append(f"a{i} < b{i}")
        if k == "D":
            for j, _sk in enumerate(tok[1:]):
                cs.append(f"c{i}_{j} < d{i}_{j} <= M{i}")
        if k == "C":
            cs.append(f"e{i} <= f{i} <= M{i}")
    return " and ".join(cs) if cs else "True"


def build(pattern: str, names, values) -> tuple:
    """-> (cfg, root value)"""
    A = dict(zip(names, values))
    import vlib.av as _av

    _av.LEN_CALLS[0] = 0
    cfg = Config()
    root = cfg.text(0, A["L"])
    prev_value = None
    toks = tokens(pattern)
    for i, tok in enumerate(toks):
        k = tok[0]
        a, b = A[f"a{i}"], A[f"b{i}"]
        typ = TY(A.get(f"t{i}", 1))
        kids = []
        if k == "P":
            val = AV(0, a, b, 0)
        elif k == "V":
            val = AV(0, a, b, 2)
        elif k == "W":
            val = AV(0, 0, A["L"], 0)
        elif k == "E":
            val = AV(0, a, a, 0)
        elif k == "X":
            val = prev_value if prev_value is not None else AV(0, a, b, 0)
        elif k == "Z":
            val = cfg.text(60 + i, 1)
        elif k in "DC":
            val = cfg.text(10 + i, A[f"M{i}"])
            if k == "C":
                cval = cfg.text(30 + i, 2)
                kids = [ChildSpec(TY(2), cval, A[f"e{i}"], A[f"f{i}"])]
        else:
            raise ValueError(k)
        cfg.add(HitSpec(0, a, b, typ, val, kids))
        prev_value = val
    # sub-hits on decoded texts are registered after all root hits (registry order)
    for i, tok in enumerate(toks):
        if tok[0] == "D":
            tid = 10 + i
            for j, sk in enumerate(tok[1:]):
                c, d = A[f"c{i}_{j}"], A[f"d{i}_{j}"]
                typ = TY(A.get(f"u{i}_{j}", 1))
                if sk == "p":
                    val = AV(tid, c, d, 0)
                elif sk == "v":
                    val = AV(tid, c, d, 2)
                elif sk == "w":
                    val = AV(tid, 0, A[f"M{i}"], 0)
                else:
                    val = cfg.text(40 + 4 * i + j, 1)
                cfg.add(HitSpec(tid, c, d, typ, val))
    return cfg, root


def run_engine(cfg, root_value, depth, root_type=None):
    from vlib.synth import decoders

    md = Multidecoder(decoders=decoders(cfg, Node))
    root = Node(TY(0) if root_type is None else root_type, root_value, "", 0, len(root_value))
    out = md.scan_node(root, depth)
    return md, root, out


def names_of(ps):
    return [n for n, _ in ps]
