"""Oracles for the engine properties C03, C04, C05, C07, C08 (layer A), each written from
its property statement and independent of the C06 reference procedure."""
import sys

sys.path.insert(0, "/verif")
from vlib import prelude  # noqa: F401
from vlib import hx
from vlib.av import AV
from vlib.sym import band, bnot, bor
from vlib.synth import TY, decoders, dump

from multidecoder.multidecoder import Multidecoder
from multidecoder.node import Node


def walk(n, out=None):
    out = [] if out is None else out
    for c in n.children:
        out.append(c)
        walk(c, out)
    return out


def is_decoded(node) -> bool:
    """decoded = value differs from the covered text ignoring case, or decoder-supplied children"""
    return bool(node.value.lower() != node.parent.value[node.start:node.end].lower())


# ---- C03 ------------------------------------------------------------------------------------


def wellformed(cfg, root, out, root_value, root_type):
    if out is not root:
        return "scan_node returned a different object than the node passed in"
    if root.parent is not None:
        return "root has a parent"
    if not (root.type == root_type) or root.obfuscation != "" or root.value is not root_value:
        return "root type/obfuscation/value modified"
    if not band(root.start == 0, root.end == len(root_value)):
        return "root span modified"
    seen = {}
    order = []

    def rec(n, depth):
        if depth > 50:
            return "tree deeper than 50 (cycle?)"
        for c in n.children:
            if id(c) in seen:
                return "node reachable twice"
            seen[id(c)] = c
            order.append(c)
            if c.parent is not n:
                return "parent pointer does not name the node whose child list holds it"
            r = rec(c, depth + 1)
            if r:
                return r
        return ""

    r = rec(root, 0)
    if r:
        return r
    it = list(root)
    if len(it) != len(order) or any(a is not b for a, b in zip(it, order)):
        return "iteration is not the depth-first pre-order of the tree"
    conj = True
    for c in order:
        conj = conj & band(0 <= c.start, c.start <= c.end, c.end <= len(c.parent.value))
    if not conj:
        for c in order:
            if not band(0 <= c.start, c.start <= c.end, c.end <= len(c.parent.value)):
                return f"span [{c.start}:{c.end}] out of bounds of parent value {c.parent.value!r}"
    return ""


# ---- C04 ------------------------------------------------------------------------------------


def context_preserved(cfg, root):
    """For every decoder-made node that is in the tree: absolute position and length as
    reported, and original == reported text up to case."""
    in_tree = {id(n): n for n in walk(root)}
    conj = True
    checks = []
    for node, spec in cfg.made:
        if id(node) not in in_tree:
            continue
        target = cfg.round_of[id(node)]  # id of the value object the decoder was given
        total = node.start
        p = node.parent
        hops = 0
        while p is not None and id(p.value) != target:
            total = total + p.start
            p = p.parent
            hops += 1
            if hops > 50:
                return "no searched ancestor found"
        if p is None:
            return "node is not below the node whose value the decoder searched"
        # decoder-supplied children stay where the decoder put them (relative to the hit's own value)
        for kid, kspec in zip(node.children, spec.children):
            kc = band(kid.start == kspec.start, kid.end == kspec.end)
            checks.append((kid, spec, kid.start, kc))
            conj = conj & kc
        c = band(total == spec.start, node.end - node.start == spec.end - spec.start,
                 node.parent.value[node.start:node.end].lower() == AV(spec.tid, spec.start, spec.end, 0).lower())
        checks.append((node, spec, total, c))
        conj = conj & c
    if not conj:
        for node, spec, total, c in checks:
            if not c:
                return (f"hit reported at t{spec.tid}[{spec.start}:{spec.end}] ended up denoting abs start {total}, "
                        f"length {node.end - node.start}, original {node.parent.value[node.start:node.end]!r}")
    return ""


# ---- C05 ------------------------------------------------------------------------------------


def _before(s1, s2):
    """s1 precedes s2 in the scan order: start ascending, end descending, registry order"""
    return bor(s1.start < s2.start, band(s1.start == s2.start, bor(s1.end > s2.end, band(s1.end == s2.end, s1.index < s2.index))))


def laminar(cfg, root):
    prebuilt = {id(k) for n, spec in cfg.made for k in n.children if spec.children}
    conj = True
    lists = []
    for n in [root] + walk(root):
        kids = [c for c in n.children]
        if kids and all(id(c) in prebuilt for c in kids):
            continue  # decoder-supplied child list
        for x, y in zip(kids, kids[1:]):
            c = band(x.start <= y.start, x.end < y.end)
            conj = conj & c
            lists.append((n, x, y, c))
    if not conj:
        for n, x, y, c in lists:
            if not c:
                return f"siblings [{x.start}:{x.end}] then [{y.start}:{y.end}] under {n.value!r}"
    # suppression / nesting, stated on the reported (absolute) spans:
    in_tree = {id(n) for n in walk(root)}
    made = list(cfg.made)
    for i, (h1, s1) in enumerate(made):
        if id(h1) not in in_tree:
            continue
        for j, (h2, s2) in enumerate(made):
            if h1 is h2 or s1.tid != s2.tid or h1.parent is None:
                continue
            # same search pass: both made by the same call round on the same searched value
            if cfg.round_of[id(h1)] != cfg.round_of[id(h2)]:
                continue
            before = _before(s1, s2)
            inside = band(s1.start <= s2.start, s2.end <= s1.end, before)
            if not inside:
                continue
            if is_decoded(h1) or h1.children and any(id(k) in prebuilt for k in h1.children):
                if id(h2) in in_tree:
                    return (f"hit t{s2.tid}[{s2.start}:{s2.end}] lies inside the earlier decoded hit "
                            f"[{s1.start}:{s1.end}] but is reported")
            else:
                if id(h2) in in_tree:
                    # nested under h1, unless h1 was closed in between by a kept hit h3 that
                    # starts inside h1 and ends beyond it (partial overlap): then the statement
                    # only requires that h2 is not h1's sibling, which the list check above covers.
                    p = h2.parent
                    ok = False
                    while p is not None:
                        if p is h1:
                            ok = True
                            break
                        p = p.parent
                    if not ok:
                        closed = False
                        for h3, s3 in made:
                            if h3 is h1 or h3 is h2 or id(h3) not in in_tree or cfg.round_of[id(h3)] != cfg.round_of[id(h1)]:
                                continue
                            if band(_before(s1, s3), _before(s3, s2), s3.end > s1.end):
                                closed = True
                                break
                        if not closed:
                            return (f"hit t{s2.tid}[{s2.start}:{s2.end}] lies inside the earlier undecoded hit "
                                    f"[{s1.start}:{s1.end}] (still open) but is not nested under it")
    return ""


# ---- C08 ------------------------------------------------------------------------------------


def same_nodes(a, b):
    """structural equality of two Node lists, folded into one symbolic conjunction"""
    if len(a) != len(b):
        return False
    conj = True
    for x, y in zip(a, b):
        conj = conj & band(x.type == y.type, x.value == y.value, x.start == y.start, x.end == y.end)
        if x.obfuscation != y.obfuscation:
            return False
        sub = same_nodes(x.children, y.children)
        if sub is False:
            return False
        conj = conj & sub
    return conj


def subscan_equal(cfg, build_again, root, depth):
    """children of every decoded node without decoder-supplied children == children of an
    independent scan of Node(type, value) with the remaining depth."""
    prebuilt_parents = {id(n) for n, spec in cfg.made if spec.children}
    todo = [(root, depth)]
    conj = True
    n_checked = 0
    while todo:
        n, d = todo.pop()
        for c in n.children:
            if id(c) in prebuilt_parents:
                # engine descends into supplied children with d-1, each child searched with d-2
                for k in c.children:
                    todo.append((k, d - 2))
                continue
            if is_decoded(c):
                cfg2, _ = build_again()
                md2 = Multidecoder(decoders=decoders(cfg2, Node))
                fresh = md2.scan_node(Node(c.type, c.value, "", 0, 0), d - 1)
                conj = conj & same_nodes(c.children, fresh.children)
                n_checked += 1
                todo.append((c, d - 1))
            else:
                todo.append((c, d))
    if conj is False or not conj:
        return "children of a decoded node differ from an independent scan of its value", n_checked
    return "", n_checked


# ---- C07 ------------------------------------------------------------------------------------


def is_sublist_tree(small, big):
    """every child list of `small` is an order-preserving sub-list of the corresponding list of
    `big` with identical node contents (greedy left-to-right matching)"""
    j = 0
    conj = True
    for x in small.children:
        matched = False
        while j < len(big.children):
            y = big.children[j]
            j += 1
            same = band(x.type == y.type, x.value == y.value, x.start == y.start, x.end == y.end)
            if same:
                sub = is_sublist_tree(x, y)
                if sub is False:
                    return False
                conj = conj & sub
                matched = True
                break
        if not matched:
            return False
    return conj
