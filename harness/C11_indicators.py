"""C11 -- plain indicators are found at any offset with exact span and canonical value (layer C).

Every obligation embeds an indicator instance (with free holes) between a free prefix and a
free suffix constrained to the indicator's *neutral delimiter* predicate (quoted per
obligation), and requires exactly one hit with exactly the instance's span, both from the
decoder and from Multidecoder(decoders=[decoder]).scan()."""
import sys

sys.path.insert(0, "/verif")
from vlib import prelude  # noqa: F401
from vlib import hx
from vlib.hx import Ob, bytes_params
from vlib.ref.codecs import digits_value
from vlib.tmpl import CLASSES, Tmpl

from decoders_common import exactly_one, k_contract, mk_template_ob

import multidecoder.decoders.pe_file as PE
from multidecoder.decoders.filename import find_executable_name, find_library
from multidecoder.decoders.network import find_domains, find_emails, find_ips, find_urls
from multidecoder.decoders.path import find_path, find_windows_path
from multidecoder.decoders.vba import find_createobject, get_closing_brace

OBLIGATIONS = []

WORD = "((48 <= {x} <= 57) or (65 <= {x} <= 90) or (97 <= {x} <= 122) or {x} == 95)"
CLASSES["ip_neutral"] = "(not (" + WORD + " or {x} == 46 or {x} == 45))"  # (?<![\w.-]) / (?![\w.-])
CLASSES["dom_neutral_l"] = "(not (" + WORD + " or {x} == 46 or {x} == 45 or {x} == 92))"  # (?<![-\w.\\_])
CLASSES["dom_neutral_r"] = "(not ((97 <= {x} <= 122) or (65 <= {x} <= 90) or (49 <= {x} <= 57) or {x} == 46 or {x} == 40 or {x} == 61 or {x} == 95 or {x} == 45))"
CLASSES["nonword"] = "(not " + WORD + ")"
CLASSES["d19"] = "(49 <= {x} <= 57)"
CLASSES["d1_4"] = "(49 <= {x} <= 52)"
CLASSES["lower"] = "(97 <= {x} <= 122)"
CLASSES["url_neutral_r"] = "({x} == 32 or {x} == 34 or {x} == 10 or {x} == 62 or {x} == 0 or {x} == 60)"
CLASSES["url_neutral_l"] = "({x} == 32 or {x} == 34 or {x} == 10 or {x} == 62 or {x} == 61)"
CLASSES["path_neutral"] = "({x} == 32 or {x} == 34 or {x} == 10 or {x} == 0 or {x} == 59 or {x} == 61)"
CLASSES["wordch"] = WORD
CLASSES["email_neutral_r"] = "(not (" + WORD + " or {x} == 46 or {x} == 40 or {x} == 61 or {x} == 45))"


def _add(name, tmpl, fn, tier="both", timeout=400, extra_pre="", funcs=(), splits=()):
    OBLIGATIONS.append(mk_template_ob(globals(), name, tmpl, fn, tier=tier, timeout=timeout, extra_pre=extra_pre,
                                      functions=funcs, bound="neutral embedding;", splits=splits))


def _embed(dec, type_, pre_n, suf_n, lcls, rcls, inst_segs, what, value_of=None, funcs=(), name=None, tier="both",
           timeout=400, extra_pre=""):
    t = Tmpl((pre_n, lcls) if pre_n else b"", *inst_segs, (suf_n, rcls) if suf_n else b"")
    inst_len = Tmpl(*inst_segs).length()

    def body(data):
        inst = list(data[pre_n: pre_n + inst_len])
        want = value_of(inst) if value_of else inst
        r = exactly_one(dec, data, pre_n, pre_n + inst_len, type_, want, what)
        return r, True

    _add(name, t, body, tier=tier, timeout=timeout, funcs=funcs, extra_pre=extra_pre)


# IPv4: canonical quad, not all-zero / .0 / .255 (last octet 1..4 or 2d form 1x)
_embed(find_ips, "network.ip", 1, 1, "ip_neutral", "ip_neutral", [b"1", (1, "digit"), b".2.3.", (1, "d1_4")], "find_ips",
       funcs=["multidecoder.decoders.network.find_ips", "multidecoder.decoders.network.parse_ip"], name="ip_p1_s1_two_digits", timeout=400)
for pn, sn in ((0, 0), (1, 1), (2, 1)):
    _embed(find_ips, "network.ip", pn, sn, "ip_neutral", "ip_neutral", [b"1", (1, "digit"), b".2", (1, "digit"), b".3.", (1, "d1_4")],
           "find_ips", funcs=["multidecoder.decoders.network.find_ips", "multidecoder.decoders.network.parse_ip"],
           name=f"ip_p{pn}_s{sn}", timeout=400 if pn == 0 else 1500, tier="both" if pn < 1 else "thorough")

# an address at offset 0: what FOLLOWS it (free bytes after a delimiter) has no influence
def _ip0(data):
    return exactly_one(find_ips, data, 0, 7, "network.ip", list(b"9.2.3.4"), "find_ips"), True


_add("ip_at_offset_0_free_suffix", Tmpl(b"9.2.3.4", (1, "ip_neutral"), 3), _ip0, timeout=600,
     funcs=["multidecoder.decoders.network.find_ips"], extra_pre="not (48 <= h1 <= 57 and h2 == 46)")

# domain: letters-digits-hyphen, >= 7 characters, .com
for pn, sn in ((0, 0), (1, 1), (2, 2)):
    _embed(find_domains, "network.domain", pn, sn, "dom_neutral_l", "dom_neutral_r", [b"ex", (2, "lower"), b"le", (1, "digit"), b".com"],
           "find_domains", funcs=["multidecoder.decoders.network.find_domains"], name=f"domain_p{pn}_s{sn}",
           tier="both" if pn < 2 else "thorough", timeout=900)

_embed(find_domains, "network.domain", 1, 1, "dom_neutral_l", "dom_neutral_r", [b"q", (2, "lower"), b".com"], "find_domains",
       funcs=["multidecoder.decoders.network.find_domains"], name="domain_7_chars_p1_s1", timeout=600)

# e-mail
for pn, sn in ((0, 0), (1, 1)):
    # (right neighbour: EMAIL_RE ends in \b, so unlike a bare domain a trailing '0' is not neutral)
    _embed(find_emails, "network.email", pn, sn, "nonword", "email_neutral_r", [b"bo", (2, "lower"), b"@example.com"], "find_emails",
           funcs=["multidecoder.decoders.network.find_emails"], name=f"email_p{pn}_s{sn}", timeout=600)

# unrelated neighbouring text glued on by a delimiter: <any byte><delimiter> before the address
CLASSES["email_delim"] = "(not (" + WORD + " or {x} == 46 or {x} == 37 or {x} == 43 or {x} == 45))"
_t = Tmpl(1, (1, "email_delim"), b"bo", (1, "lower"), b"@example.com", (1, "email_neutral_r"))


def _email_glued(data):
    return exactly_one(find_emails, data, 2, 2 + 15, "network.email", list(data[2:17]), "find_emails"), True


_add("email_glued_to_neighbour", _t, _email_glued, funcs=["multidecoder.decoders.network.find_emails"], timeout=600)

# URL (value = the text itself: no escapes in the instance)
for pn, sn in ((0, 0), (1, 1)):
    _embed(find_urls, "network.url", pn, sn, "url_neutral_l", "url_neutral_r", [b"http://example.com/a", (2, "lower"), b"/b"],
           "find_urls", funcs=["multidecoder.decoders.network.find_urls"], name=f"url_p{pn}_s{sn}", timeout=400)

# POSIX path
for pn, sn in ((0, 0), (1, 1)):
    _embed(find_path, "path", pn, sn, "path_neutral", "path_neutral", [b"/usr/", (3, "lower"), b"/file"], "find_path",
           funcs=["multidecoder.decoders.path.find_path"], name=f"posix_path_p{pn}_s{sn}")

# Windows drive path without dot segments (value = the text itself)
for pn, sn in ((0, 0), (1, 1)):
    _embed(find_windows_path, "windows.path", pn, sn, "path_neutral", "path_neutral", [b"c:\\temp\\", (3, "lower"), b"\\data"],
           "find_windows_path", funcs=["multidecoder.decoders.path.find_windows_path"], name=f"win_path_p{pn}_s{sn}", timeout=600)

# UNC and DOS-device paths: every optional part of the prefix (@SSL, @port, both, administrative share, \\?\ and \\.\UNC forms)
_FWP = ["multidecoder.decoders.path.find_windows_path"]
for _nm, _typ, _segs in (
        ("unc_plain", "windows.unc.path", [b"\\\\ab.cd\\shr\\", (3, "lower"), b".txt"]),
        ("unc_ssl", "windows.unc.path", [b"\\\\ab.cd@SSL\\shr\\", (3, "lower"), b".txt"]),
        ("unc_port", "windows.unc.path", [b"\\\\ab.cd@", (3, "digit"), b"\\shr\\", (1, "lower"), b"ile.txt"]),
        ("unc_ssl_port", "windows.unc.path", [b"\\\\ab.cd@SSL@", (2, "digit"), b"\\shr\\", (1, "lower"), b"ile.txt"]),
        ("unc_admin_share", "windows.unc.path", [b"\\\\ab.cd\\", (1, "lower"), b"$\\dir\\", (2, "lower"), b"le.txt"]),
        ("device_drive", "windows.device.path", [b"\\\\?\\", (1, "lower"), b":\\tmp\\", (2, "lower"), b"le.txt"]),
        ("device_unc", "windows.device.path", [b"\\\\.\\UNC\\ab.cd\\shr\\", (3, "lower"), b".txt"]),
):
    _embed(find_windows_path, _typ, 1, 1, "path_neutral", "path_neutral", _segs, "find_windows_path", funcs=_FWP,
           name=f"win_{_nm}_p1_s1", timeout=600)

# .exe / .dll names
_embed(find_executable_name, "executable.filename", 1, 1, "nonword", "nonword", [(3, "lower"), b".exe"], "find_executable_name",
       funcs=["multidecoder.decoders.filename.find_executable_name"], name="exe_name_p1_s1")
_embed(find_library, "executable.filename", 1, 1, "nonword", "nonword", [(3, "lower"), b".DLL"], "find_library",
       funcs=["multidecoder.decoders.filename.find_library"], name="dll_name_p1_s1")


# CreateObject( ... ) up to the balancing parenthesis
def createobject(data):
    # data = P + "CreateObject(" + 4 free + ")" + S ; the expected end is the first position where the
    # parentheses opened after "CreateObject(" balance
    s0 = 1
    body_start = s0 + len(b"CreateObject(")
    bal = 1
    end = -1
    for i in range(body_start, len(data)):
        c = data[i]
        if c == 41:
            bal -= 1
        elif c == 40:
            bal += 1
        if bal == 0:
            end = i + 1
            break
    if end < 0:
        ok, hits = k_contract(find_createobject, data, "find_createobject")
        if not ok:
            return False, True
        if hits:
            return hx.fail("find_createobject: unbalanced call reported", data=data, hits=hits), True
        return True, False
    return exactly_one(find_createobject, data, s0, end, "vba.function.createobject", list(data[s0:end]), "find_createobject"), True


_add("createobject_balanced", Tmpl(1, b"CreateObject(", 4, b")", 1), createobject, funcs=["multidecoder.decoders.vba.find_createobject",
                                                                                       "multidecoder.decoders.vba.get_closing_brace"])


def closing_brace(d0, d1, d2, d3, d4, d5):
    data = bytes([d0, d1, d2, d3, d4, d5])
    got = get_closing_brace(data, 0)
    bal = 1
    want = -1
    for i in range(6):
        if data[i] == 41:
            bal -= 1
        elif data[i] == 40:
            bal += 1
        if bal == 0:
            want = i + 1
            break
    if got != want:
        return hx.fail("get_closing_brace", data=data, got=got, want=want), True
    return True, want > 0


OBLIGATIONS.append(Ob("closing_brace_6", closing_brace, bytes_params("d", 6), tier="both", timeout=300, layer="B",
                      functions=["multidecoder.decoders.vba.get_closing_brace"], bound="6 free bytes"))


# embedded PE: given the true size (pe_size stubbed to an arbitrary non-negative int), the span is exact
def pe_carve(pre_n, lfanew, size, tail):
    """data = <pre_n filler bytes> 'MZ' + zero padding up to e_lfanew field (value lfanew) ... 'PE\\0\\0' at lfanew + <tail> more.
    pe_size is replaced by a stub returning `size`."""
    import struct

    total_after_mz = max(lfanew + 4, 0x40) + tail
    body = bytearray(b"\x00" * total_after_mz)
    body[0:2] = b"MZ"
    body[0x3C:0x40] = struct.pack("<I", lfanew)
    if lfanew + 4 <= len(body):
        body[lfanew:lfanew + 4] = b"PE\x00\x00"
    data = b"\x01" * pre_n + bytes(body)
    orig = PE.pe_size
    PE.pe_size = lambda _d: size
    try:
        ok, hits = k_contract(PE.find_pe_files, data, "find_pe_files")
    finally:
        PE.pe_size = orig
    if not ok:
        return False, True
    if size == 0:
        if hits:
            return hx.fail("find_pe_files: hit for an unparsable PE", hits=hits), True
        return True, False
    if size > len(body):
        # truncated PE (sections point past the end of the data): only the hit contract is required
        return True, False
    if len(hits) != 1:
        return hx.fail("find_pe_files: expected one hit", pre_n=pre_n, lfanew=lfanew, size=size, hits=hits), True
    h = hits[0]
    if not (h.start == pre_n and h.end == pre_n + size and h.type == "pe_file" and len(h.value) == size):
        return hx.fail("find_pe_files: span is not exactly the PE image", hit=(h.start, h.end, len(h.value)), want=(pre_n, pre_n + size)), True
    return True, True


for _pn, _lf, _tl in ((0, 64, 0), (2, 64, 3), (1, 68, 1)):
    def _pe(size, _pn=_pn, _lf=_lf, _tl=_tl):
        return pe_carve(_pn, _lf, size, _tl)

    _nm = f"pe_carve_given_size_p{_pn}_l{_lf}_t{_tl}"
    _pe.__name__ = _nm
    globals()[_nm] = _pe
    OBLIGATIONS.append(Ob(_nm, _pe, [("size", "int:0:90")], tier="both", timeout=600, layer="C",
                          functions=["multidecoder.decoders.pe_file.find_pe_files"],
                          stubs=["pe_file.pe_size := arbitrary non-negative int (pefile's parsing is not encodable)"],
                          bound=f"MZ at offset {_pn}, e_lfanew {_lf}, {_tl} trailing bytes, FREE reported PE size 0..90 (may exceed the data)"))
