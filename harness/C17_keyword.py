"""C17 -- keyword search: layer B obligations (every byte of keyword and data free)."""
import sys

sys.path.insert(0, "/verif")
from vlib import prelude  # noqa: F401
from vlib import hx
from vlib.hx import Ob, bytes_params
from vlib.ref.keyword import ref_mixed_case, ref_occurrences

from multidecoder.keyword import find_all, find_keywords, is_mixed_case


def _find_all_vs_ref(kw: bytes, data: bytes):
    got = find_all(kw.lower(), data.lower())
    want = ref_occurrences(kw, data)
    hx.trace(got)
    if len(got) != len(want):
        return hx.fail("find_all: wrong number of occurrences", kw=kw, data=data, got=got, want=want), True
    for g, w in zip(got, want):
        if g != w:
            return hx.fail("find_all: wrong offset", kw=kw, data=data, got=got, want=want), True
    return True, len(want) > 0


def find_all_k1_d3(k0, d0, d1, d2):
    return _find_all_vs_ref(bytes([k0]), bytes([d0, d1, d2]))


def find_all_k2_d4(k0, k1, d0, d1, d2, d3):
    return _find_all_vs_ref(bytes([k0, k1]), bytes([d0, d1, d2, d3]))


def find_all_k2_d5(k0, k1, d0, d1, d2, d3, d4):
    return _find_all_vs_ref(bytes([k0, k1]), bytes([d0, d1, d2, d3, d4]))


def find_all_k3_d6(k0, k1, k2, d0, d1, d2, d3, d4, d5):
    return _find_all_vs_ref(bytes([k0, k1, k2]), bytes([d0, d1, d2, d3, d4, d5]))


def find_all_k1_d5(k0, d0, d1, d2, d3, d4):
    return _find_all_vs_ref(bytes([k0]), bytes([d0, d1, d2, d3, d4]))


def _keywords_vs_ref(label, kws, data):
    got = find_keywords(label, kws, data)
    hx.trace([(n.type, n.value, n.obfuscation, n.start, n.end) for n in got])
    want = []
    for kw in kws:
        for s in ref_occurrences(kw, data):
            raw = data[s : s + len(kw)]
            want.append((kw, s, s + len(kw), "MixedCase" if ref_mixed_case(kw, raw) else ""))
    if len(got) != len(want):
        return hx.fail("find_keywords: wrong number of hits", kws=kws, data=data, got=got, want=want), True
    for n, (kw, s, e, obf) in zip(got, want):
        if not (n.type == label and n.value == kw and n.start == s and n.end == e and n.obfuscation == obf):
            return hx.fail("find_keywords: wrong hit", kws=kws, data=data, got=n, want=(kw, s, e, obf)), True
        if n.children or n.parent is not None:
            return hx.fail("find_keywords: hit has links", got=n), True
    return True, len(want) > 0


def keywords_1x2_d4(k0, k1, d0, d1, d2, d3):
    return _keywords_vs_ref("lbl", [bytes([k0, k1])], bytes([d0, d1, d2, d3]))


def keywords_2x1_d3(k0, j0, d0, d1, d2):
    # two one-byte keywords (equal, case variants and prefixes arise by themselves)
    return _keywords_vs_ref("lbl", [bytes([k0]), bytes([j0])], bytes([d0, d1, d2]))


def keywords_k1k2_d4(k0, j0, j1, d0, d1, d2, d3):
    return _keywords_vs_ref("lbl", [bytes([k0]), bytes([j0, j1])], bytes([d0, d1, d2, d3]))


def keywords_1x3_d5(k0, k1, k2, d0, d1, d2, d3, d4):
    return _keywords_vs_ref("x.y", [bytes([k0, k1, k2])], bytes([d0, d1, d2, d3, d4]))


def mixed_case_table(k0, k1, k2, r0, r1, r2):
    """is_mixed_case(value, raw) against the statement's truth table, for raw equal to the
    keyword up to ASCII case (the only way the engine calls it)."""
    kw = bytes([k0, k1, k2])
    raw = bytes([r0, r1, r2])
    got = is_mixed_case(kw, raw)
    want = ref_mixed_case(kw, raw)
    if bool(got) != bool(want):
        return hx.fail("is_mixed_case", kw=kw, raw=raw, got=got, want=want), True
    return True, bool(want)


_SAME_FOLD = " and ".join(
    f"(k{i} == r{i} or (65 <= k{i} <= 90 and r{i} == k{i} + 32) or (97 <= k{i} <= 122 and r{i} == k{i} - 32))"
    for i in range(3)
)

FUNCS = ["multidecoder.keyword.find_all", "multidecoder.keyword.find_keywords", "multidecoder.keyword.is_mixed_case"]

OBLIGATIONS = [
    Ob("find_all_k1_d3", find_all_k1_d3, bytes_params("k", 1) + bytes_params("d", 3), tier="quick", timeout=120,
       functions=FUNCS[:1], bound="keyword 1 free byte, data 3 free bytes (all 256 values each)"),
    Ob("find_all_k2_d4", find_all_k2_d4, bytes_params("k", 2) + bytes_params("d", 4), tier="both", timeout=240,
       functions=FUNCS[:1], bound="keyword 2 free bytes, data 4 free bytes"),
    Ob("find_all_k1_d5", find_all_k1_d5, bytes_params("k", 1) + bytes_params("d", 5), tier="thorough", timeout=900,
       functions=FUNCS[:1], bound="keyword 1 free byte, data 5 free bytes"),
    Ob("find_all_k2_d5", find_all_k2_d5, bytes_params("k", 2) + bytes_params("d", 5), tier="thorough", timeout=1500,
       functions=FUNCS[:1], bound="keyword 2 free bytes, data 5 free bytes"),
    Ob("find_all_k3_d6", find_all_k3_d6, bytes_params("k", 3) + bytes_params("d", 6), tier="thorough", timeout=1800,
       functions=FUNCS[:1], bound="keyword 3 free bytes, data 6 free bytes"),
    Ob("keywords_1x2_d4", keywords_1x2_d4, bytes_params("k", 2) + bytes_params("d", 4), tier="both", timeout=240,
       functions=FUNCS, bound="one keyword of 2 free bytes, data 4 free bytes"),
    Ob("keywords_2x1_d3", keywords_2x1_d3, bytes_params("k", 1) + bytes_params("j", 1) + bytes_params("d", 3),
       tier="both", timeout=240, functions=FUNCS, bound="two keywords of 1 free byte, data 3 free bytes"),
    Ob("keywords_k1k2_d4", keywords_k1k2_d4, bytes_params("k", 1) + bytes_params("j", 2) + bytes_params("d", 4),
       tier="thorough", timeout=1500, functions=FUNCS, bound="keywords of 1 and 2 free bytes, data 4 free bytes"),
    Ob("keywords_1x3_d5", keywords_1x3_d5, bytes_params("k", 3) + bytes_params("d", 5), tier="thorough", timeout=1800,
       functions=FUNCS, bound="one keyword of 3 free bytes, data 5 free bytes"),
    Ob("mixed_case_table", mixed_case_table, bytes_params("k", 3) + bytes_params("r", 3), tier="both", timeout=240,
       functions=FUNCS[2:], pre=_SAME_FOLD,
       bound="keyword and matched text of 3 free bytes each, equal up to ASCII case"),
]


def find_all_k2_d7(k0, k1, d0, d1, d2, d3, d4, d5, d6):
    return _find_all_vs_ref(bytes([k0, k1]), bytes([d0, d1, d2, d3, d4, d5, d6]))


def keywords_3x1_d3(k0, j0, m0, d0, d1, d2):
    return _keywords_vs_ref("lbl", [bytes([k0]), bytes([j0]), bytes([m0])], bytes([d0, d1, d2]))


OBLIGATIONS += [
    Ob("find_all_k2_d7", find_all_k2_d7, bytes_params("k", 2) + bytes_params("d", 7), tier="thorough", timeout=2400, functions=FUNCS[:1],
       bound="keyword 2 free bytes, data 7 free bytes"),
    Ob("keywords_3x1_d3", keywords_3x1_d3, bytes_params("k", 1) + bytes_params("j", 1) + bytes_params("m", 1) + bytes_params("d", 3),
       tier="thorough", timeout=2400, functions=FUNCS, bound="three keywords of 1 free byte, data 3 free bytes"),
]
