"""C03 (engine part) -- the result is a well-formed tree with in-bounds spans, for every
registry satisfying the hit contract K (layer A).  Decoder-side K is in C03_decoders."""
import sys

sys.path.insert(0, "/verif")
from vlib import prelude  # noqa: F401
from vlib.synth import TY

import engine_oracles as EO
from engine_gen import N3_HEAVY, N4, QUICK_PATTERNS, make


def oracle(cfg, root, out, root_value, depth, rebuild):
    return EO.wellformed(cfg, root, out, root_value, TY(0))


OBLIGATIONS = make(globals(), "wellformed", oracle, QUICK_PATTERNS, N3_HEAVY + N4,
                   bound_extra="Oracle: root untouched, parent links, each node once, pre-order iteration, 0<=start<=end<=len(parent value).")
