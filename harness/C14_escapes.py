"""C14 -- character-escape decodings (XML refs, chr(), unescape(), UTF-16) are exact (layer C)."""
import sys

sys.path.insert(0, "/verif")
from vlib import prelude  # noqa: F401
from vlib import hx
from vlib.ref.codecs import (digits_value, hex_nibble, is_hex_char, is_surrogate, percent_decode, same_bytes,
                             utf8_encode)
from vlib.sym import band, between, bor
from vlib.tmpl import CLASSES, Tmpl

from decoders_common import k_contract, mk_template_ob

from multidecoder.decoders.chr import find_chr
from multidecoder.decoders.codec import find_utf16
from multidecoder.decoders.javascript import find_unescape
from multidecoder.decoders.xml import find_xml_hex

CLASSES["neutral_amp"] = "({x} != 38 and {x} != 59 and {x} != 35)"
CLASSES["nosq"] = "({x} != 39)"
CLASSES["xX"] = "({x} == 120 or {x} == 88)"

OBLIGATIONS = []


def _add(name, tmpl, fn, tier="both", timeout=300, extra_pre="", funcs=()):
    OBLIGATIONS.append(mk_template_ob(globals(), name, tmpl, fn, tier=tier, timeout=timeout, extra_pre=extra_pre,
                                      functions=funcs, bound="exactness oracle;"))


def exactly(dec, data, start, end, type_, obf, want, what):
    ok, hits = k_contract(dec, data, what)
    if not ok:
        return False, True
    if len(hits) != 1:
        return hx.fail(f"{what}: expected exactly one node", data=data, hits=hits), True
    h = hits[0]
    if not (h.start == start and h.end == end and h.type == type_ and h.obfuscation == obf):
        return hx.fail(f"{what}: wrong span/type/label", data=data, hit=h, want=(start, end, type_, obf)), True
    if not same_bytes(h.value, want):
        return hx.fail(f"{what}: wrong value", data=data, hit=h, want=bytes(want) if not hx.SYMBOLIC else None), True
    return True, True


def none(dec, data, what):
    ok, hits = k_contract(dec, data, what)
    if not ok:
        return False, True
    if hits:
        return hx.fail(f"{what}: nothing should be reported", data=data, hits=hits), True
    return True, False


# ---- XML numeric character references -------------------------------------------------------
# five references, two of them symbolic: &#DDD; (three free digits) and &#xHH; (free x/X, two free bytes)

_XT = Tmpl((1, "neutral_amp"), b"&#65;&#", (3, "digit"), b";&#x41;&#", (1, "xX"), 2, b";&#066;", (1, "neutral_amp"))


def xml_refs(data):
    d = list(data[8:11])
    hx_ = list(data[21:23])
    dec_val = digits_value(d)
    valid = band(dec_val <= 255, is_hex_char(hx_[0]), is_hex_char(hx_[1]))
    if valid:
        want = [65, dec_val, 0x41, hex_nibble(hx_[0]) * 16 + hex_nibble(hx_[1]), 66]
        return exactly(find_xml_hex, data, 1, len(data) - 1, "", "unescape.xml", want, "find_xml_hex")
    # an invalid reference breaks the run into pieces shorter than five: nothing may be reported
    r, _ = none(find_xml_hex, data, "find_xml_hex")
    return r, False


_add("xml_refs_dec_hex", _XT, xml_refs, funcs=["multidecoder.decoders.xml.find_xml_hex", "multidecoder.decoders.xml.unescape_xml"])

_XT2 = Tmpl(b"&#1;&#", (2, "digit"), b";&#", (1, "digit"), b";&#xfF;&#Xa0;&#255;")


def xml_refs_short(data):
    want = [1, digits_value(list(data[6:8])), digits_value(list(data[11:12])), 0xFF, 0xA0, 255]
    return exactly(find_xml_hex, data, 0, len(data), "", "unescape.xml", want, "find_xml_hex")


_add("xml_refs_1_2_digits", _XT2, xml_refs_short, funcs=["multidecoder.decoders.xml.find_xml_hex"])

# ---- chr / chrw / chrb -------------------------------------------------------------------------

def _chr(head, nd, lead=0):
    t = Tmpl(1, head, b"0" * lead, (nd, "digit"), b")", 1)

    def body(data):
        s0 = 1 + len(head) + lead
        n = digits_value(list(data[s0: s0 + nd]))
        if is_surrogate(n):
            r, _ = none(find_chr, data, "find_chr")
            return r, True
        return exactly(find_chr, data, 1, len(data) - 1, "string", "function.chr", utf8_encode(n), "find_chr")

    return t, body


for nm, (head, nd, lead) in {"chr_3digits": (b"chr(", 3, 0), "chrb_lead0": (b"CHRB(", 2, 3),
                             "chr_4digits": (b"chr(", 4, 1)}.items():
    t, body = _chr(head, nd, lead)
    _add(nm, t, body, funcs=["multidecoder.decoders.chr.find_chr"],
         extra_pre="not ((65 <= h0 <= 90) or (97 <= h0 <= 122) or (48 <= h0 <= 57) or h0 == 95)" if False else "")

# ---- unescape('...') ----------------------------------------------------------------------------

_UT = Tmpl(1, b"unescape('", (4, "nosq"), b"')", 1)


def unescape4(data):
    arg = list(data[11:15])
    return exactly(find_unescape, data, 1, len(data) - 1, "string", "function.unescape", percent_decode(arg), "find_unescape")


_add("unescape_4free", _UT, unescape4, funcs=["multidecoder.decoders.javascript.find_unescape"])
_UT2 = Tmpl(b"unescape('%", 2, b"a%4", 1, b"')")


def unescape_pct(data):
    arg = list(data[10:17])
    return exactly(find_unescape, data, 0, len(data), "string", "function.unescape", percent_decode(arg), "find_unescape")


_add("unescape_pct_holes", _UT2, unescape_pct, extra_pre="h0 != 39 and h1 != 39 and h2 != 39",
     funcs=["multidecoder.decoders.javascript.find_unescape"])

# ---- UTF-16LE Latin-1 runs -----------------------------------------------------------------------

def utf16_class(c):
    """[^\\x00-\\x08\\x0e-\\x1f\\x7f-\\x9f]"""
    return band(c > 8, bor(c < 14, c > 31), bor(c < 127, c > 159))


_WT = Tmpl(b"\x01\x01", b"A\0b\0", 1, b"\0c\0d\0", 1, b"\0e\0f\0", b"\x01\x01")


def utf16_two_free(data):
    a, b = data[6], data[12]
    if band(utf16_class(a), utf16_class(b)):
        cps = [65, 98, a, 99, 100, b, 101, 102]
        want = []
        for cp in cps:
            want += utf8_encode(cp)
        return exactly(find_utf16, data, 2, len(data) - 2, "", "codec.uft-16", want, "find_utf16")
    r, _ = none(find_utf16, data, "find_utf16")  # run broken into pieces shorter than seven
    return r, False


_add("utf16_two_free_chars", _WT, utf16_two_free, funcs=["multidecoder.decoders.codec.find_utf16"])

_WT2 = Tmpl(b"A\0b\0c\0d\0e\0f\0", 1, 1, b"\0\0\0\0g\0h\0i\0j\0k\0l\0m\0")


def utf16_sep(data):
    a, hi = data[12], data[13]
    if band(utf16_class(a), hi == 0):
        cps = [65, 98, 99, 100, 101, 102, a, 0, 0, 103, 104, 105, 106, 107, 108, 109]
        want = []
        for cp in cps:
            want += utf8_encode(cp)
        return exactly(find_utf16, data, 0, len(data), "", "codec.uft-16", want, "find_utf16")
    return k_contract(find_utf16, data, "find_utf16")[0], False


_add("utf16_nul_separated_runs", _WT2, utf16_sep, funcs=["multidecoder.decoders.codec.find_utf16"])

# run-length boundary: exactly seven characters are a run, six are not (one free character at either end)
_WT3 = Tmpl(b"\x01", 1, b"\0b\0c\0d\0e\0f\0g\0", 1, 1)


def utf16_seven(data):
    a, t0, t1 = data[1], data[15], data[16]
    va = utf16_class(a)
    vt = band(utf16_class(t0), t1 == 0)
    mid = [98, 99, 100, 101, 102, 103]
    if band(va, vt):
        cps, s, e = [a] + mid + [t0], 1, 17
    elif va:
        cps, s, e = [a] + mid, 1, 15
    elif vt:
        cps, s, e = mid + [t0], 3, 17
    else:
        r, _ = none(find_utf16, data, "find_utf16")
        return r, False
    want = []
    for cp in cps:
        want += utf8_encode(cp)
    return exactly(find_utf16, data, s, e, "", "codec.uft-16", want, "find_utf16")


_add("utf16_run_of_seven_boundary", _WT3, utf16_seven, funcs=["multidecoder.decoders.codec.find_utf16"])

# a single NUL character (two zero bytes) joins two runs only if the second has seven characters
_WT4 = Tmpl(b"A\0b\0c\0d\0e\0f\0g\0", b"\0\0", b"h\0i\0j\0k\0l\0m\0", 1, 1)


def utf16_one_nul(data):
    n, hi = data[28], data[29]
    first = [65, 98, 99, 100, 101, 102, 103]
    if band(utf16_class(n), hi == 0):
        cps, e = first + [0, 104, 105, 106, 107, 108, 109, n], 30
    else:
        cps, e = first, 14
    want = []
    for cp in cps:
        want += utf8_encode(cp)
    return exactly(find_utf16, data, 0, e, "", "codec.uft-16", want, "find_utf16")


_add("utf16_single_nul_joins_runs", _WT4, utf16_one_nul, funcs=["multidecoder.decoders.codec.find_utf16"])

# 55000..55999 straddles the start of the surrogate block 55296..57343 (unencodable: must not be reported)
_t5s, _b5s = _chr(b"Chr(5", 4, 0)


def _chr5(data, _b=_b5s):
    return _b(data)


def _mk5():
    t = Tmpl(1, b"Chr(55", (3, "digit"), b")", 1)

    def body(data):
        n = 55000 + digits_value(list(data[7:10]))
        if is_surrogate(n):
            r, _ = none(find_chr, data, "find_chr")
            return r, True
        return exactly(find_chr, data, 1, len(data) - 1, "string", "function.chr", utf8_encode(n), "find_chr")

    return t, body


_t5x, _b5x = _mk5()
_add("chr_55000_55999_surrogates", _t5x, _b5x, funcs=["multidecoder.decoders.chr.find_chr"])

# five free digits: split by the leading digit so that each process has 4 free digits
_t5, _b5 = _chr(b"ChrW(", 5, 0)
OBLIGATIONS.append(mk_template_ob(globals(), "chrw_5digits", _t5, _b5, tier="thorough", timeout=1800,
                                  splits=[f"h1 == {48 + d}" for d in range(10)],
                                  functions=["multidecoder.decoders.chr.find_chr"], bound="exactness oracle;"))

_UT6 = Tmpl(b"unescape('", (6, "nosq"), b"')")


def unescape6(data):
    arg = list(data[10:16])
    return exactly(find_unescape, data, 0, len(data), "string", "function.unescape", percent_decode(arg), "find_unescape")


_add("unescape_6free", _UT6, unescape6, tier="thorough", timeout=2400, funcs=["multidecoder.decoders.javascript.find_unescape"])

_XT3 = Tmpl(b"&#", (3, "digit"), b";&#", (1, "xX"), 2, b";&#", (2, "digit"), b";&#x4a;&#7;&#", (1, "digit"), b";")


def xml_refs_four_symbolic(data):
    d1 = digits_value(list(data[2:5]))
    h = list(data[9:11])
    d2 = digits_value(list(data[14:16]))
    d3 = digits_value(list(data[29:30]))
    valid = band(d1 <= 255, is_hex_char(h[0]), is_hex_char(h[1]))
    if valid:
        want = [d1, hex_nibble(h[0]) * 16 + hex_nibble(h[1]), d2, 0x4A, 7, d3]
        return exactly(find_xml_hex, data, 0, len(data), "", "unescape.xml", want, "find_xml_hex")
    ok, hits = k_contract(find_xml_hex, data, "find_xml_hex")
    if not ok:
        return False, True
    # an invalid first or second reference leaves at most a shorter run: whatever is reported must decode exactly
    hex_ok = band(is_hex_char(h[0]), is_hex_char(h[1]))
    floor = 6 if hex_ok else 12  # first reference invalid (> 255): a run may start at the second; second invalid: at the third
    for hnode in hits:
        if hnode.start < floor:
            return hx.fail("find_xml_hex: a run containing an invalid reference was decoded", data=data, hit=hnode), True
    return True, False


_add("xml_refs_four_symbolic", _XT3, xml_refs_four_symbolic, tier="thorough", timeout=2400, funcs=["multidecoder.decoders.xml.find_xml_hex"])
