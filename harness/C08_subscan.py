"""C08 -- sub-results of a decoded node are exactly a scan of its decoded value (layer A)."""
import sys

sys.path.insert(0, "/verif")
from vlib import prelude  # noqa: F401

import engine_oracles as EO
from engine_gen import N3_HEAVY, make

PATS_Q = ["Dp", "Dpd", "PDp", "DpP", "DdDp", "DwP", "PDvP", "DppP"]
PATS_T = ["PDpdP", "PDpP", "DpPP", "PDdDp", "DdPDp", "PPDp", "PDpd", "DpdDp", "PDppP", "DpDpDp", "PVDpP"]


def oracle(cfg, root, out, root_value, depth, rebuild):
    msg, n = EO.subscan_equal(cfg, rebuild, root, depth)
    cfg.keep.append(n)
    return msg


def interesting(cfg, root):
    return bool(cfg.keep and cfg.keep[-1] >= 1) and any(c.children for c in EO.walk(root))


OBLIGATIONS = make(globals(), "subscan", oracle, PATS_Q, PATS_T, interesting=interesting,
                   bound_extra="Oracle: children of each decoded node without decoder-supplied children == children of a fresh scanner's scan_node(Node(type, value), remaining depth).")

# a smaller depth budget with several decoded siblings (the remaining depth of each must not depend on its elder siblings)
OBLIGATIONS += make(globals(), "subscan", oracle, ["DpDp", "DdDp"], ["DpDpDp", "DpPDd"], depth=2, interesting=interesting,
                    bound_extra="As above with depth limit 2.")
