"""C13 -- base64, hexadecimal and XOR decodings are bit-exact (layers B and C)."""
import sys

sys.path.insert(0, "/verif")
from vlib import prelude  # noqa: F401
from vlib import hx
from vlib.hx import Ob, bytes_params
from vlib.ref.codecs import b64_decode_chars, hex_decode_chars, is_b64_char, same_bytes
from vlib.sym import ball, band, bany, between, bnot, bor
from vlib.tmpl import CLASSES, Tmpl

from decoders_common import k_contract, mk_template_ob

import multidecoder.decoders.powershell as PSMOD
from multidecoder.decoders.base64 import (find_atob, find_base64, find_Base64Decode, find_FromBase64String,
                                          pad_base64)
from multidecoder.decoders.hex import find_FromHexString, find_hex
from multidecoder.node import Node
from multidecoder.xor_helper import apply_xor_key, get_xorkey
from multidecoder.xortool import dexor

OBLIGATIONS = []
CLASSES["eq"] = "({x} == 61)"
CLASSES["b64_or_eq"] = CLASSES["b64pad"]
CLASSES["nonb64"] = "(not " + CLASSES["b64pad"] + " and {x} != 10 and {x} != 13 and {x} != 38 and {x} != 60)"
CLASSES["nonhexword"] = "(not (" + CLASSES["alnum"] + " or {x} == 95))"


def _add(name, tmpl, fn, tier="both", timeout=300, extra_pre="", funcs=(), splits=()):
    OBLIGATIONS.append(mk_template_ob(globals(), name, tmpl, fn, tier=tier, timeout=timeout, extra_pre=extra_pre,
                                      functions=funcs, bound="exactness oracle;", splits=splits))


def single(dec, data, what):
    ok, hits = k_contract(dec, data, what)
    if not ok:
        return None
    return hits


# ---- call forms: one free 4-character quantum (incl. padding forms) after a concrete quantum ------

def _callform(dec, head, tail, type_, label, what, nfree=4, fixed=b"QUJD"):
    t = Tmpl(1, head, fixed, (nfree, "b64pad"), tail, 1)
    s0 = 1 + len(head)

    def body(data):
        hits = single(dec, data, what)
        if hits is None:
            return False, True
        text = list(data[s0: s0 + len(fixed) + nfree])
        # shape the regex accepts: alphabet characters then at most two '='
        q = text[len(fixed):]
        npad = 0
        if q[-1] == 61:
            npad = 1
            if len(q) >= 2 and q[-2] == 61:
                npad = 2
        chars = text[: len(text) - npad]
        wellformed = ball(is_b64_char(c) for c in chars)
        nd = len(chars)
        decodable = band(wellformed, nd % 4 != 1, bor(nd % 4 == 0, band(nd % 4 == 2, npad == 2), band(nd % 4 == 3, npad >= 1)))
        if not decodable:
            if hits:
                return hx.fail(f"{what}: undecodable argument reported", data=data, hits=hits), True
            return True, False
        if len(hits) != 1:
            return hx.fail(f"{what}: expected one node", data=data, hits=hits), True
        h = hits[0]
        if not (h.start == 1 and h.end == len(data) - 1 and h.type == type_ and h.obfuscation == label):
            return hx.fail(f"{what}: wrong span/type/label", data=data, hit=h), True
        if not same_bytes(h.value, b64_decode_chars(chars)):
            return hx.fail(f"{what}: value is not the RFC 4648 decoding", data=data, hit=h), True
        if h.children:
            return hx.fail(f"{what}: unexpected children", data=data, hit=h), True
        return True, True

    return t, body


for nm, args in {
    "atob_quantum": (find_atob, b"atob('", b"')", "javascript.string", "encoding.base64", "find_atob"),
    "Base64Decode_quantum": (find_Base64Decode, b'base64decode("', b'")', "vba.string", "encoding.base64", "find_Base64Decode"),
    "FromBase64String_quantum": (find_FromBase64String, b"[System.Convert]::FromBase64String('", b"')", "powershell.bytes",
                                 "encoding.base64", "find_FromBase64String"),
}.items():
    t, body = _callform(*args)
    _add(nm, t, body, funcs=["multidecoder.decoders.base64." + args[5]])

# ---- bare base64: soundness + acceptance boundaries -------------------------------------------------
B24 = b"QUJDREVGR0hJSktMTU5PUFFS"  # 24 characters, 18 distinct


def strip_breaks(cov):
    """remove line breaks and their HTML escapes (&#13; &#xD; &#10; &#xA[;]) from a covered text"""
    out = []
    i = 0
    n = len(cov)
    while i < n:
        if cov[i] == 38 and i + 1 < n and cov[i + 1] == 35:  # '&#'
            j = i + 2
            while j < n and j < i + 7 and cov[j] != 59:
                j += 1
            if j < n and cov[j] == 59:
                i = j + 1
                continue
        if cov[i] == 13 or cov[i] == 10:
            i += 1
            continue
        out.append(cov[i])
        i += 1
    return out


def _bare(tmpl, enc_lo, enc_hi_from_end, accept_rule):
    def body(data):
        hits = single(find_base64, data, "find_base64")
        if hits is None:
            return False, True
        for h in hits:
            if h.obfuscation != "encoding.base64" or h.type != "":
                return hx.fail("find_base64: wrong label", data=data, hit=h), True
            # soundness: value == RFC 4648 decoding of the alphabet characters of the covered text
            cov = strip_breaks(list(data[h.start: h.end]))
            chars = [c for c in cov if is_b64_char(c)]  # forks per symbolic byte: covered text is mostly concrete
            if len(chars) % 4 == 1:
                return hx.fail("find_base64: reported a text with 4k+1 alphabet characters", data=data, hit=h), True
            if not same_bytes(h.value, b64_decode_chars(chars)):
                return hx.fail("find_base64: value is not the RFC 4648 decoding of the covered text", data=data, hit=h), True
        want = accept_rule(data)
        if want is None:
            return True, len(hits) > 0
        ws, we = want
        if ws is None:
            if hits:
                return hx.fail("find_base64: text violating an acceptance rule was decoded", data=data, hits=hits), True
            return True, True
        if len(hits) != 1 or not (hits[0].start == ws and hits[0].end == we):
            return hx.fail("find_base64: acceptable text not decoded as one unit covering exactly the encoded text",
                           data=data, hits=hits, want=(ws, we)), True
        return True, True

    return body


def rule_len(data):
    # 1 neutral + 20 concrete + 4 free (b64pad) + 1 neutral:   accepted iff the free quantum keeps a multiple of 4
    q = list(data[21:25])
    allb = ball(is_b64_char(c) for c in q)
    pad1 = band(ball(is_b64_char(c) for c in q[:3]), q[3] == 61)
    pad2 = band(ball(is_b64_char(c) for c in q[:2]), q[2] == 61, q[3] == 61)
    slashes = (q[0] == 47) + (q[1] == 47) + (q[2] == 47) + (q[3] == 47)
    if band(bor(allb, pad1, pad2), slashes * 32 <= 3 * 24):
        return (1, 25)
    if bor(allb, pad1, pad2):
        return (None, None)  # slash-heavy: more than 3/32 of the characters are '/'
    return None  # other shapes (e.g. '=' in the middle): only soundness is checked


_add("bare_b64_quantum_and_padding", Tmpl((1, "nonb64"), B24[:20], (4, "b64pad"), (1, "nonb64")),
     _bare(None, 0, 0, rule_len), funcs=["multidecoder.decoders.base64.find_base64"], tier="thorough", timeout=2400)
_add("bare_b64_last_pair_and_padding", Tmpl(b" ", B24[:20], b"QU", (2, "b64pad"), b" "),
     _bare(None, 0, 0, rule_len), funcs=["multidecoder.decoders.base64.find_base64"])


def rule_21_22(data):
    # 20 concrete characters + 2 free alphabet characters + free neighbour: 22 characters is not a multiple of 4 ->
    # never acceptable as is; with the neighbour also in the alphabet 23 -> not acceptable either
    return (None, None)


_add("bare_b64_22_chars_rejected", Tmpl((1, "nonb64"), B24[:20], (2, "b64"), (1, "nonb64")),
     _bare(None, 0, 0, rule_21_22), funcs=["multidecoder.decoders.base64.find_base64"])


def rule_distinct(data):
    # 24 characters made of the 6 distinct characters of 'ABCDEF' plus two free ones:
    # accepted iff more than 6 distinct characters, not pure hex, not pure letters, '/' ratio <= 3/32
    a, b = data[12], data[13]
    base = [65, 66, 67, 68, 69, 70]
    new_a = ball(a != x for x in base)
    new_b = band(ball(b != x for x in base), b != a)
    distinct = 6 + new_a + new_b
    chars = list(data[1:25])
    pure_hex = ball(bor(between(48, c, 57), between(65, c, 70), between(97, c, 102)) for c in chars)
    pure_alpha = ball(bor(between(65, c, 90), between(97, c, 122)) for c in chars)
    slashes = (a == 47) + (b == 47)
    ok = band(distinct > 6, bnot(pure_hex), bnot(pure_alpha), slashes * 32 <= 3 * 24)
    if ok:
        return (1, 25)
    return (None, None)


_add("bare_b64_distinct_hex_camel_rules", Tmpl((1, "nonb64"), b"ABCDEFABCDE", (2, "b64"), b"FABCDEFABCD", (1, "nonb64")),
     _bare(None, 0, 0, rule_distinct), funcs=["multidecoder.decoders.base64.find_base64"])


def rule_newline(data):
    # line breaks inside the blob are ignored (24 characters; more than 2 slashes is slash-heavy)
    q = list(data[33:37])
    slashes = (q[0] == 47) + (q[1] == 47) + (q[2] == 47) + (q[3] == 47)
    if slashes * 32 <= 3 * 24:
        return (1, len(data) - 1)
    return (None, None)


_add("bare_b64_linebreaks", Tmpl((1, "nonb64"), B24[:12], b"\r\n", B24[12:20], b"&#13;&#10;", (4, "b64"), (1, "nonb64")),
     _bare(None, 0, 0, rule_newline), funcs=["multidecoder.decoders.base64.find_base64"], tier="thorough", timeout=2400)
_add("bare_b64_linebreaks_2free", Tmpl(b" ", B24[:12], b"\r\n", B24[12:20], b"&#13;&#10;", b"QU", (2, "b64"), b" "),
     _bare(None, 0, 0, rule_newline), funcs=["multidecoder.decoders.base64.find_base64"])

# ---- hexadecimal -----------------------------------------------------------------------------------------
H18 = b"414243444546474849"  # 9 pairs


def hex_tail(data):
    hits = single(find_hex, data, "find_hex")
    if hits is None:
        return False, True
    pair = list(data[19:21])
    lower_ok = ball(bor(between(48, c, 57), between(97, c, 102)) for c in pair)
    upper_ok = ball(bor(between(48, c, 57), between(65, c, 70)) for c in pair)
    # the concrete prefix is digits only, so it fits both cases
    if bor(lower_ok, upper_ok):
        if len(hits) != 1:
            return hx.fail("find_hex: 10 same-case pairs not decoded as one unit", data=data, hits=hits), True
        h = hits[0]
        if not (h.start == 1 and h.end == 21 and h.type == "" and h.obfuscation == "decoded.hexadecimal"):
            return hx.fail("find_hex: wrong span/label", data=data, hit=h), True
        if not same_bytes(h.value, hex_decode_chars(list(data[1:21]))):
            return hx.fail("find_hex: wrong bytes", data=data, hit=h), True
        return True, True
    if hits:
        return hx.fail("find_hex: fewer than 10 same-case pairs were decoded", data=data, hits=hits), True
    return True, False


_add("hex_10th_pair", Tmpl((1, "nonhexword"), H18, 2, (1, "nonhexword")), hex_tail, funcs=["multidecoder.decoders.hex.find_hex"])


def hex_mixed_sound(data):
    hits = single(find_hex, data, "find_hex")
    if hits is None:
        return False, True
    for h in hits:
        cov = list(data[h.start: h.end])
        if len(cov) % 2 or len(cov) < 20:
            return hx.fail("find_hex: odd or short run", data=data, hit=h), True
        if not same_bytes(h.value, hex_decode_chars(cov)):
            return hx.fail("find_hex: wrong bytes", data=data, hit=h), True
        lo = ball(bor(between(48, c, 57), between(97, c, 102)) for c in cov)
        up = ball(bor(between(48, c, 57), between(65, c, 70)) for c in cov)
        if not bor(lo, up):
            return hx.fail("find_hex: mixed-case run decoded", data=data, hit=h), True
    # completeness: when the whole run is same-case, it is decoded as ONE unit covering exactly the run
    run = list(data[1:-1])
    lo_all = ball(bor(between(48, c, 57), between(97, c, 102)) for c in run)
    up_all = ball(bor(between(48, c, 57), between(65, c, 70)) for c in run)
    if bor(lo_all, up_all):
        if len(hits) != 1 or not (hits[0].start == 1 and hits[0].end == len(data) - 1):
            return hx.fail("find_hex: a same-case run of >= 10 pairs is not decoded as one unit", data=data, hits=hits), True
    return True, len(hits) > 0


_add("hex_case_boundaries", Tmpl(b" 4142434445", (2, "hex"), b"4647484950", (2, "hex"), b"51 "), hex_mixed_sound,
     funcs=["multidecoder.decoders.hex.find_hex"])


def fromhex(data):
    hits = single(find_FromHexString, data, "find_FromHexString")
    if hits is None:
        return False, True
    pair = list(data[33:35])
    # the call form is matched case-insensitively: any two hex digits complete the argument
    from vlib.ref.codecs import is_hex_char
    if band(is_hex_char(pair[0]), is_hex_char(pair[1])):
        if len(hits) != 1:
            return hx.fail("find_FromHexString: not decoded", data=data, hits=hits), True
        h = hits[0]
        if not (h.start == 0 and h.end == len(data) and h.type == "powershell.bytes" and h.obfuscation == "encoding.hexidecimal"):
            return hx.fail("find_FromHexString: wrong span/label", data=data, hit=h), True
        if not same_bytes(h.value, hex_decode_chars(list(data[15:35]))):
            return hx.fail("find_FromHexString: wrong bytes", data=data, hit=h), True
        return True, True
    if hits:
        return hx.fail("find_FromHexString: non-hex argument decoded", data=data, hits=hits), True
    return True, False


_add("FromHexString_pair", Tmpl(b"FromHexString('", H18, 2, b"')"), fromhex, funcs=["multidecoder.decoders.hex.find_FromHexString"])

# ---- XOR -----------------------------------------------------------------------------------------------------

def xor_apply(key, d0, d1, d2):
    """apply_xor_key: child = parent bytes XOR key, labelled cipher.xor<key>; for keys the bytes()
    constructor cannot represent (>= 256) nothing may be raised."""
    data = bytes([d0, d1, d2])
    node = Node("powershell.bytes", data, "", 0, 3)
    try:
        out = apply_xor_key(key, data, node, "powershell.bytes")
    except Exception as e:  # noqa: BLE001
        return hx.fail(f"apply_xor_key raised {type(e).__name__}: {e}", key=key, data=data), True
    if out is not node or len(node.children) != 1:
        return hx.fail("apply_xor_key: child not attached", key=key), True
    c = node.children[0]
    if c.parent is not node or c.obfuscation != "cipher.xor" + str(key) or not (c.start == 0 and c.end == 3):
        return hx.fail("apply_xor_key: wrong label/span/parent", key=key, child=c), True
    ok = True
    for i in range(3):
        ok = ok & (c.value[i] == (data[i] ^ key))
    if not ok:
        return hx.fail("apply_xor_key: child is not parent XOR key", key=key, data=data, child=c), True
    return True, True


def xor_apply_big(key, d0, d1):
    """keys 256..999 (XOR_RE lets them through): no exception, and no child claiming a single-byte key"""
    data = bytes([d0, d1])
    node = Node("powershell.bytes", data, "", 0, 2)
    try:
        out = apply_xor_key(key, data, node, "powershell.bytes")
    except Exception as e:  # noqa: BLE001
        return hx.fail(f"apply_xor_key raised {type(e).__name__}: {e}", key=key, data=data), True
    if out is not node or node.children:
        return hx.fail("apply_xor_key: child reported for a key that is not a single byte", key=key), True
    return True, True


OBLIGATIONS.append(Ob("xor_apply_key_256_999", xor_apply_big, [("key", "int:256:999")] + bytes_params("d", 2), tier="both",
                      timeout=300, layer="B", functions=["multidecoder.xor_helper.apply_xor_key"], bound="key 256..999, 2 free bytes"))
OBLIGATIONS.append(Ob("xor_apply_key_0_255", xor_apply, [("key", "int:0:255")] + bytes_params("d", 3), tier="both", timeout=300,
                      layer="B", functions=["multidecoder.xor_helper.apply_xor_key"], bound="key 0..255, 3 free bytes"))


def xor_wiring(k0, k1, k2, q0, q1):
    """FromBase64String(...) -bxor <1-3 free digits>: the XOR child, when reported, equals the decoded bytes XOR the
    stated key; scanning never raises whatever the key."""
    digits = bytes([k0, k1, k2])
    data = b"FromBase64String('QUJD" + bytes([q0, q1]) + b"==') -bxor " + digits
    hits = single(find_FromBase64String, data, "find_FromBase64String")
    if hits is None:
        return False, True
    if len(hits) != 1:
        return hx.fail("xor wiring: expected one node", data=data, hits=hits), True
    h = hits[0]
    key = (k0 - 48) * 100 + (k1 - 48) * 10 + (k2 - 48)
    plain = b64_decode_chars(list(b"QUJD") + [q0, q1])
    if not same_bytes(h.value, plain):
        return hx.fail("xor wiring: wrong base64 value", data=data, hit=h), True
    if bor(key == 0, key > 255):
        # key 0 is "no key"; a key above 255 is not a single-byte key: no XOR child may be reported
        if h.children:
            return hx.fail("xor wiring: key 0 / key > 255 must not produce a child", data=data, hit=h), True
        return True, False
    if len(h.children) != 1:
        return hx.fail("xor wiring: expected one xor child", data=data, hit=h), True
    c = h.children[0]
    if c.obfuscation != "cipher.xor" + str(key):
        return hx.fail("xor wiring: label does not state the key", data=data, child=c), True
    ok = True
    for i in range(len(plain)):
        ok = ok & (c.value[i] == (plain[i] ^ key))
    if len(c.value) != len(plain) or not ok:
        return hx.fail("xor wiring: child is not parent XOR key", data=data, child=c), True
    return True, True


OBLIGATIONS.append(Ob("xor_wiring_keys_000_999", xor_wiring,
                      [("k0", "byte"), ("k1", "byte"), ("k2", "byte"), ("q0", "byte"), ("q1", "byte")],
                      pre=" and ".join(f"48 <= k{i} <= 57" for i in range(3)) + " and " + CLASSES["b64"].format(x="q0") + " and " + CLASSES["b64"].format(x="q1"),
                      tier="both", timeout=400, layer="C",
                      functions=["multidecoder.decoders.base64.find_FromBase64String", "multidecoder.xor_helper.get_xorkey",
                                 "multidecoder.xor_helper.apply_xor_key"],
                      bound="-bxor followed by three free digits (keys 000..999), one free base64 pair"))


def dexor_repeating(klen, k0, k1, k2, t0, t1, t2, t3, t4):
    key = bytes([k0, k1, k2][:klen])
    text = bytes([t0, t1, t2, t3, t4])
    out = dexor(text, key)
    if len(out) != 5:
        return hx.fail("dexor: output length differs from the text length", key=key, text=text, out=out), True
    ok = True
    for i in range(5):
        ok = ok & (out[i] == (text[i] ^ key[i % klen]))
    if not ok:
        return hx.fail("dexor is not repeating-key XOR", key=key, text=text, out=out), True
    return True, True


OBLIGATIONS.append(Ob("dexor_repeating_key", dexor_repeating, [("klen", "int:1:3")] + bytes_params("k", 3) + bytes_params("t", 5),
                      tier="both", timeout=300, layer="B", functions=["multidecoder.xortool.dexor"],
                      bound="key of 1..3 free bytes, text of 5 free bytes"))


def pad_b64(n, c0, c1, c2, c3, c4):
    s = bytes([c0, c1, c2, c3, c4][:n])
    out = pad_base64(s)
    r = n % 4
    if r == 0:
        want = list(s)
    elif r == 1:
        want = list(s[:-1])
    else:
        want = list(s) + [61] * (4 - r)
    if not same_bytes(out, want):
        return hx.fail("pad_base64", s=s, out=out), True
    return True, True


OBLIGATIONS.append(Ob("pad_base64_rule", pad_b64, [("n", "int:0:5")] + bytes_params("c", 5), tier="both", timeout=120, layer="B",
                      functions=["multidecoder.decoders.base64.pad_base64"], bound="all inputs of length 0..5"))
