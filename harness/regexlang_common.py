"""Layer D obligations: regular-language inclusion queries on the live pattern constants, decided by z3's
sequence/regex theory for strings of EVERY length (vlib/rx2z3.py).  Executed without CrossHair."""
import glob
import ast
import os
import sys

sys.path.insert(0, "/verif")
from vlib import prelude  # noqa: F401
from vlib import hx
from vlib import rx2z3 as R
from vlib.hx import Ob

import z3

D09 = z3.Range("0", "9")
HEXD = z3.Union(D09, z3.Range("a", "f"), z3.Range("A", "F"))
LHEX = z3.Union(D09, z3.Range("a", "f"))
UHEX = z3.Union(D09, z3.Range("A", "F"))
B64 = z3.Union(D09, z3.Range("a", "z"), z3.Range("A", "Z"), z3.Re("+"), z3.Re("/"))
LE255 = z3.Union(z3.Loop(D09, 1, 2), z3.Concat(z3.Union(z3.Re("0"), z3.Re("1")), z3.Loop(D09, 2, 2)),
                 z3.Concat(z3.Re("2"), z3.Range("0", "4"), D09), z3.Concat(z3.Re("25"), z3.Range("0", "5")))


def corpus():
    out = set()
    root = os.path.join(os.path.dirname(prelude.REPO_SRC), "tests")
    for f in glob.glob(os.path.join(root, "**", "*.py"), recursive=True):
        try:
            t = ast.parse(open(f).read())
        except SyntaxError:
            continue
        for nd in ast.walk(t):
            if isinstance(nd, ast.Constant) and isinstance(nd.value, bytes) and len(nd.value) <= 300:
                out.add(nd.value)
    return sorted(out)


def validate_translation(pattern: bytes, tr, group=0):
    """L(real regex) is contained in L(translation) on the repository's own test inputs (the direction soundness needs)"""
    import regex

    n = 0
    for s in corpus():
        for m in regex.finditer(pattern, s):
            txt = m.group(group)
            if txt is None or any(c > 127 for c in txt):
                continue
            lang = tr.whole if group == 0 else tr.groups[group]
            ok = z3.simplify(z3.InRe(z3.StringVal(txt.decode("latin-1")), lang))
            if not z3.is_true(ok):
                return False, txt
            n += 1
    return True, n


def inclusion(name, get_pattern, group, pred, what, expect="unsat"):
    """obligation: every string group `group` of the pattern can match lies in `pred`"""

    def body(dummy=0):
        pattern = get_pattern()
        tr = R.translate(pattern)
        okv, info = validate_translation(pattern, tr, group)
        if not okv:
            raise AssertionError(f"translation of {pattern!r} does not contain the real match {info!r}")
        lang = tr.whole if group == 0 else tr.groups[group]
        verdict, witness = R.check_included(lang, pred)
        hx.trace((name, verdict, witness))
        if verdict == "unknown":
            raise AssertionError("z3 returned unknown")
        if verdict != expect:
            return hx.fail(f"{what}: z3 answered {verdict}" + (f", witness {witness!r}" if witness else ""), pattern=pattern), True
        return True, True

    body.__name__ = name
    return Ob(name, body, [("dummy", "int:0:0")], tier="both", timeout=120, layer="D", reach=False,
              functions=["(pattern constant) " + what.split(":")[0]],
              bound="regular-language inclusion decided by z3 Seq/Re for strings of every length; look-arounds/anchors dropped (over-approximation); " + what)
