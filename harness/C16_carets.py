"""C16 (leaf part) -- strip_carets against the cmd.exe caret automaton of the statement (layer B)."""
import sys

sys.path.insert(0, "/verif")
from vlib import prelude  # noqa: F401
from vlib import hx
from vlib.hx import Ob, bytes_params
from vlib.ref.shell import ref_strip_carets

from multidecoder.decoders.shell import deobfuscate_cmd, strip_carets


def _strip(data: bytes):
    try:
        got = strip_carets(data)
    except Exception as e:
        return hx.fail(f"strip_carets raised {type(e).__name__}: {e}", data=data), True
    hx.trace(got)
    want = ref_strip_carets(data)
    if len(got) != len(want):
        return hx.fail("strip_carets: wrong length", data=data, got=got, want=bytes(want) if not hx.SYMBOLIC else None), True
    ok = True
    for g, w in zip(got, want):
        ok = ok & (g == w)
    if not ok:
        return hx.fail("strip_carets: wrong bytes", data=data, got=got, want=bytes(want) if not hx.SYMBOLIC else None), True
    # label iff changed
    v, label = deobfuscate_cmd(data)
    changed = len(want) != len(data) or any(a != b for a, b in zip(want, data))
    if (label == "unescape.shell.carets") != bool(changed) or label not in ("", "unescape.shell.carets"):
        return hx.fail("deobfuscate_cmd: label not 'exactly when de-escaping changed it'", data=data, label=label), True
    return True, len(want) < len(data)


def carets_n3(d0, d1, d2):
    return _strip(bytes([d0, d1, d2]))


def carets_n4(d0, d1, d2, d3):
    return _strip(bytes([d0, d1, d2, d3]))


def carets_n5(d0, d1, d2, d3, d4):
    return _strip(bytes([d0, d1, d2, d3, d4]))


def carets_n6(d0, d1, d2, d3, d4, d5):
    return _strip(bytes([d0, d1, d2, d3, d4, d5]))


def carets_n7(d0, d1, d2, d3, d4, d5, d6):
    return _strip(bytes([d0, d1, d2, d3, d4, d5, d6]))


def carets_n0_2(n, d0, d1):
    return _strip(bytes([d0, d1][:n]))


F = ["multidecoder.decoders.shell.strip_carets", "multidecoder.decoders.shell.deobfuscate_cmd"]
OBLIGATIONS = [
    Ob("carets_n0_2", carets_n0_2, [("n", "int:0:2")] + bytes_params("d", 2), tier="both", timeout=120, functions=F,
       bound="all inputs of length 0..2"),
    Ob("carets_n3", carets_n3, bytes_params("d", 3), tier="both", timeout=120, functions=F, bound="all inputs of length 3"),
    Ob("carets_n4", carets_n4, bytes_params("d", 4), tier="both", timeout=200, functions=F, bound="all inputs of length 4"),
    Ob("carets_n5", carets_n5, bytes_params("d", 5), tier="both", timeout=300, functions=F, bound="all inputs of length 5"),
    Ob("carets_n6", carets_n6, bytes_params("d", 6), tier="thorough", timeout=1200, functions=F, bound="all inputs of length 6"),
    Ob("carets_n7", carets_n7, bytes_params("d", 7), tier="thorough", timeout=3000, functions=F, bound="all inputs of length 7"),
]


def carets_n8(d0, d1, d2, d3, d4, d5, d6, d7):
    return _strip(bytes([d0, d1, d2, d3, d4, d5, d6, d7]))


_CLS = ["d0 == 94", "d0 == 34", "d0 == 13", "d0 != 94 and d0 != 34 and d0 != 13"]
OBLIGATIONS.append(Ob("carets_n8", carets_n8, bytes_params("d", 8), tier="thorough", timeout=2400, functions=F, bound="all inputs of length 8",
                      splits=[f"({a}) and ({b.replace('d0', 'd1')})" for a in _CLS for b in _CLS]))
