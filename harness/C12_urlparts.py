"""C12 -- URL and Windows-path parts index into, and decode from, their parent's value."""
import sys

sys.path.insert(0, "/verif")
from vlib import prelude  # noqa: F401
from vlib import hx
from vlib.hx import Ob, bytes_params
from vlib.ref.codecs import percent_decode, same_bytes
from vlib.ref.url import ref_normalize_path, ref_normalize_percent
from vlib.sym import ball, band, between, bor
from vlib.tmpl import CLASSES, Tmpl

from decoders_common import k_contract, mk_template_ob

from multidecoder.decoders.network import find_urls, normalize_path, normalize_percent_encoding, parse_authority
from multidecoder.decoders.path import find_windows_path

OBLIGATIONS = []
CLASSES["pathch"] = "({x} != 63 and {x} != 35)"  # a URL path never contains ? or #
CLASSES["segch"] = "({x} == 46 or {x} == 37 or {x} == 50 or {x} == 101 or {x} == 69 or {x} == 47 or {x} == 97 or {x} == 70 or {x} == 102)"
CLASSES["urlpath"] = "((97 <= {x} <= 122) or (48 <= {x} <= 57) or {x} == 46 or {x} == 47 or {x} == 37 or {x} == 45 or {x} == 95 or {x} == 126 or (65 <= {x} <= 70))"
CLASSES["userinfo"] = "((97 <= {x} <= 122) or (48 <= {x} <= 57) or {x} == 37 or {x} == 58 or {x} == 46 or {x} == 45 or (65 <= {x} <= 70) or {x} == 33 or {x} == 36)"
CLASSES["in_q_hash"] = "({x} == 63 or {x} == 35 or {x} == 97)"
CLASSES["in_hH"] = "({x} == 104 or {x} == 72)"
CLASSES["in_tT"] = "({x} == 116 or {x} == 84)"
CLASSES["query"] = "((97 <= {x} <= 122) or (48 <= {x} <= 57) or {x} == 37 or {x} == 61 or {x} == 38 or {x} == 63 or {x} == 47 or (65 <= {x} <= 70))"


def _add(name, tmpl, fn, tier="both", timeout=300, extra_pre="", funcs=(), splits=()):
    OBLIGATIONS.append(mk_template_ob(globals(), name, tmpl, fn, tier=tier, timeout=timeout, extra_pre=extra_pre,
                                      functions=funcs, bound="exactness oracle;", splits=splits))


# ---- normalize_path (layer B) -----------------------------------------------------------------

def _np(path: bytes):
    try:
        got, label = normalize_path(path)
    except Exception as e:  # noqa: BLE001
        return hx.fail(f"normalize_path raised {type(e).__name__}: {e}", path=path), True
    hx.trace((got, label))
    want, removed = ref_normalize_path(path)
    if not same_bytes(got, want):
        return hx.fail("normalize_path: wrong result", path=path, got=got, want=bytes(want) if not hx.SYMBOLIC else None), True
    if (label == "url.dotpath") != bool(removed) or label not in ("", "url.dotpath"):
        return hx.fail("normalize_path: label not 'exactly when a segment was removed'", path=path, label=label, removed=removed), True
    return True, bool(removed)


def normpath_abs_dots(d0, d1, d2, d3, d4):
    return _np(b"/" + bytes([d0, d1, d2, d3, d4]))


# NOTE: relative paths are not checked: normalize_path is only reachable with the path of a URL that
# has an authority (URL_RE requires "://host"), which is empty or starts with "/".  A first version of
# this harness also fed relative paths and reported b".%2E/" -> b"/" -- a false alarm of the
# under-constrained kind (no caller can pass it), removed.


def normpath_abs_free4(d0, d1, d2, d3):
    return _np(b"/" + bytes([d0, d1, d2, d3]))


def normpath_abs_dots7(d0, d1, d2, d3, d4, d5, d6):
    return _np(b"/" + bytes([d0, d1, d2, d3, d4, d5, d6]))


_SEG5 = " and ".join(CLASSES["segch"].format(x=f"d{i}") for i in range(5))
_SEG7 = " and ".join(CLASSES["segch"].format(x=f"d{i}") for i in range(7))
_P4 = " and ".join(CLASSES["pathch"].format(x=f"d{i}") for i in range(4))
FN = ["multidecoder.decoders.network.normalize_path"]
OBLIGATIONS += [
    Ob("normpath_abs_dots", normpath_abs_dots, bytes_params("d", 5), pre=_SEG5, tier="both", timeout=400, layer="B", functions=FN,
       bound="'/' + 5 bytes over {. % 2 e E / a F f}: all dot-segment / %2e / %2F shapes of that length, absolute"),
    Ob("normpath_abs_free4", normpath_abs_free4, bytes_params("d", 4), pre=_P4, tier="both", timeout=400, layer="B", functions=FN,
       bound="'/' + 4 free bytes (all values except ? and #)"),
    Ob("normpath_abs_dots7", normpath_abs_dots7, bytes_params("d", 7), pre=_SEG7, tier="thorough", timeout=3000, layer="B", functions=FN,
       bound="'/' + 7 bytes over {. % 2 e E / a F f}"),
]


# ---- normalize_percent_encoding (shared with C10) ----------------------------------------------

def _npe(uri: bytes):
    got, label = normalize_percent_encoding(uri)
    hx.trace((got, label))
    want, shortened = ref_normalize_percent(uri)
    if not same_bytes(got, want):
        return hx.fail("normalize_percent_encoding: wrong result", uri=uri, got=got), True
    if (label == "escape.percent") != bool(shortened) or label not in ("", "escape.percent"):
        return hx.fail("normalize_percent_encoding: label not 'exactly when that shortened the text'", uri=uri, label=label), True
    return True, bool(shortened)


def pct_norm_free4(d0, d1, d2, d3):
    return _npe(b"%" + bytes([d0, d1, d2, d3]))


def pct_norm_two(d0, d1, d2, d3):
    return _npe(b"a%" + bytes([d0, d1]) + b"%" + bytes([d2, d3]))


OBLIGATIONS += [
    Ob("pct_norm_free4", pct_norm_free4, bytes_params("d", 4), tier="both", timeout=300, layer="B",
       functions=["multidecoder.decoders.network.normalize_percent_encoding"], bound="'%' + 4 free bytes"),
    Ob("pct_norm_two", pct_norm_two, bytes_params("d", 4), tier="both", timeout=300, layer="B",
       functions=["multidecoder.decoders.network.normalize_percent_encoding"], bound="two escapes with free digits"),
]


# ---- URL part children (layer C) ----------------------------------------------------------------

PART_TYPES = {"network.url.scheme", "network.url.username", "network.url.password", "network.domain", "network.ip",
              "network.ipv6", "network.url.path", "network.url.query", "network.url.fragment"}


def lower_list(cs):
    return [c + 32 * between(65, c, 90) for c in cs]


def check_url_parts(data, what="find_urls"):
    ok, hits = k_contract(find_urls, data, what)
    if not ok:
        return False, True
    for u in hits:
        if u.type != "network.url":
            return hx.fail("non-url hit", hit=u), True
        val = u.value
        prev_end = 0
        for c in u.children:
            if c.type not in PART_TYPES:
                return hx.fail("unknown part type", data=data, child=c), True
            if not (prev_end <= c.start and c.start <= c.end and c.end <= len(val)):
                return hx.fail("url parts not ordered / disjoint / in bounds", data=data, url=u, child=c), True
            prev_end = c.end
            text = list(val[c.start:c.end])
            if c.type == "network.url.scheme":
                if not same_bytes(c.value, lower_list(text)):
                    return hx.fail("scheme child is not the lower-cased scheme text", data=data, url=u, child=c), True
                all_lower = ball(bor(c_ < 65, c_ > 90) for c_ in text)
                all_upper = ball(bor(c_ < 97, c_ > 122) for c_ in text)
                mixed = bor(all_lower, all_upper) == False  # noqa: E712
                if (c.obfuscation == "MixedCase") != bool(mixed):
                    return hx.fail("scheme MixedCase label wrong", data=data, child=c), True
                if c.start != 0:
                    return hx.fail("scheme not at offset 0", data=data, child=c), True
            elif c.type in ("network.url.username", "network.url.password", "network.url.query", "network.url.fragment"):
                if not same_bytes(c.value, percent_decode(text)):
                    return hx.fail(f"{c.type}: value is not the percent-decoded text it covers", data=data, url=u, child=c,
                                   covered=bytes(text) if not hx.SYMBOLIC else None), True
                if c.type == "network.url.fragment" and not (c.start >= 1 and val[c.start - 1] == 35):
                    return hx.fail("fragment child is not preceded by '#'", data=data, url=u, child=c), True
                if c.type == "network.url.query" and not (c.start >= 1 and val[c.start - 1] == 63):
                    return hx.fail("query child is not preceded by '?'", data=data, url=u, child=c), True
            elif c.type == "network.url.path":
                want, removed = ref_normalize_path(text)
                if not same_bytes(c.value, want):
                    return hx.fail("path child is not the normalised path text", data=data, url=u, child=c,
                                   covered=bytes(text) if not hx.SYMBOLIC else None), True
                if (c.obfuscation == "url.dotpath") != bool(removed):
                    return hx.fail("path dotpath label wrong", data=data, child=c), True
            elif c.type == "network.domain":
                if not same_bytes(c.value, percent_decode(text)):
                    return hx.fail("domain child does not equal the host text", data=data, url=u, child=c), True
        types = [c.type for c in u.children]
        if "network.url.scheme" not in types:
            return hx.fail("url without scheme child", data=data, url=u), True
    return True, any(len(u.children) >= 3 for u in hits)


FU = ["multidecoder.decoders.network.find_urls", "multidecoder.decoders.network.parse_url",
      "multidecoder.decoders.network.parse_authority", "multidecoder.decoders.network.normalize_path",
      "multidecoder.decoders.network.normalize_percent_encoding"]
_add("url_path_hole3", Tmpl(b"http://example.com/", (3, "urlpath"), b"/x"), check_url_parts, timeout=600, funcs=FU)
_add("url_path_pct", Tmpl(b"http://example.com/a%", (2, "hex"), b"b/.", (1, "urlpath")), check_url_parts, timeout=600, funcs=FU)
_add("url_userinfo_hole", Tmpl(b"https://u", (2, "userinfo"), b"@example.com/p"), check_url_parts, timeout=600, funcs=FU)
_add("url_userinfo_escape", Tmpl(b"https://u%", (2, "hex"), b"r:pw@example.com/p"), check_url_parts, timeout=600, funcs=FU)
_add("url_empty_query_fragment", Tmpl(b"ftp://example.com/p?", (1, "query"), b"#", (2, "query")), check_url_parts, timeout=600, funcs=FU,
     extra_pre="True")
_add("url_query_or_fragment_marker", Tmpl(b"http://example.com/p", (1, "in_q_hash"), (1, "in_q_hash"), b"ab"), check_url_parts, timeout=600, funcs=FU)
_add("url_query_fragment", Tmpl(b"ftp://example.com/p?", (2, "query"), b"#", (1, "query")), check_url_parts, timeout=600, funcs=FU)
_add("url_scheme_case_port", Tmpl((1, "in_hH"), b"T", (1, "in_tT"), b"p://example.com:", (2, "digit"), b"/"), check_url_parts, timeout=600, funcs=FU)
_add("url_ip_host", Tmpl(b"http://10.0.", (1, "digit"), b".1/a?b"), check_url_parts, timeout=900, funcs=FU)
_add("url_path_hole5", Tmpl(b"http://example.com/", (5, "urlpath")), check_url_parts, tier="thorough", timeout=3000, funcs=FU)
_add("url_userinfo_hole4", Tmpl(b"https://", (4, "userinfo"), b"@example.com/p"), check_url_parts, tier="thorough", timeout=3000, funcs=FU)


# ---- Windows path nodes ---------------------------------------------------------------------------------------
def winpath_parts(data):
    import ntpath

    ok, hits = k_contract(find_windows_path, data, "find_windows_path")
    if not ok:
        return False, True
    for h in hits:
        raw = data[h.start:h.end]
        if h.type not in ("windows.path", "windows.unc.path", "windows.device.path"):
            return hx.fail("unknown path type", hit=h), True
        if (h.obfuscation == "windows.dotpath") != (len(h.value) < len(raw)) or h.obfuscation not in ("", "windows.dotpath"):
            return hx.fail("windows.dotpath label not 'exactly when normalisation shortened it'", data=data, hit=h), True
        for c in h.children:
            if not same_bytes(h.value[c.start:c.end], list(c.value)) and c.type != "network.ip":
                return hx.fail("path child does not index the corresponding text of the path value", data=data, hit=h, child=c), True
            if c.type in ("filename", "executable.filename", "executable.library.filename") and c.end != len(h.value):
                return hx.fail("file-name child is not the tail of the path value", data=data, hit=h, child=c), True
    return True, any(h.children for h in hits)


FW = ["multidecoder.decoders.path.find_windows_path"]
CLASSES["in_dot_q"] = "({x} == 46 or {x} == 63)"
CLASSES["segdot"] = "((97 <= {x} <= 122) or {x} == 46 or {x} == 92)"
_add("winpath_dots_and_filename", Tmpl(b" c:\\aaa\\", (2, "segdot"), b"\\bbb\\tool.exe "), winpath_parts, funcs=FW, timeout=600)
_add("winpath_unc_host_and_filename", Tmpl(b" \\\\10.0.0.", (1, "digit"), b"\\sh\\", (2, "segdot"), b"\\a.dll "), winpath_parts, funcs=FW, timeout=600)



def _winpath_host(off, host, typ):
    """the host of a UNC / device-UNC path is reported as a child at its place in the path value (after every optional
    '@SSL' / '@port' decoration), besides everything winpath_parts demands"""
    def body(data):
        r, _ = winpath_parts(data)
        if r is not True:
            return r, True
        hits = find_windows_path(data)
        if len(hits) != 1 or hits[0].start != 1:
            return hx.fail("expected one path node starting at offset 1", data=data, hits=hits), True
        h = hits[0]
        want = list(host(data)) if callable(host) else list(host)
        found = [c for c in h.children if c.type == typ]
        if len(found) != 1:
            return hx.fail("host child missing (or duplicated)", data=data, hit=h), True
        c = found[0]
        if not (c.start == off and c.end == off + len(want) and same_bytes(c.value, want)):
            return hx.fail("host child is not the host text at its place in the path value", data=data, hit=h, child=c), True
        return True, True
    return body


_add("winpath_unc_domain_ssl_port", Tmpl(b" \\\\srv.example.com@SSL@8", (1, "digit"), b"\\share\\..\\dir\\", (2, "lower"), b"a.dll "),
     _winpath_host(2, b"srv.example.com", "network.domain"), funcs=FW, timeout=600)
_add("winpath_unc_domain_port", Tmpl(b" \\\\srv.example.com@", (2, "digit"), b"\\share\\.\\", (2, "lower"), b"a.dll "),
     _winpath_host(2, b"srv.example.com", "network.domain"), funcs=FW, timeout=600)
_add("winpath_device_unc_domain", Tmpl(b" \\\\", (1, "in_dot_q"), b"\\UNC\\srv.example.com\\share\\", (2, "lower"), b"a\\..\\a.dll "),
     _winpath_host(8, b"srv.example.com", "network.domain"), funcs=FW, timeout=600)
_add("winpath_device_unc_ip", Tmpl(b" \\\\?\\unc\\10.0.0.", (1, "digit"), b"\\share\\", (2, "lower"), b"a\\a.dll "),
     _winpath_host(8, lambda d: d[9:17], "network.ip"), funcs=FW, timeout=600)

def normpath_abs_dots8(d0, d1, d2, d3, d4, d5, d6, d7):
    return _np(b"/" + bytes([d0, d1, d2, d3, d4, d5, d6, d7]))


OBLIGATIONS.append(Ob("normpath_abs_dots8", normpath_abs_dots8, bytes_params("d", 8), pre=" and ".join(CLASSES["segch"].format(x=f"d{i}") for i in range(8)),
                      tier="thorough", timeout=2400, layer="B", functions=FN, splits=[f"d0 == {v}" for v in (46, 37, 50, 101, 69, 47, 97, 70, 102)],
                      bound="'/' + 8 bytes over {. % 2 e E / a F f}"))
