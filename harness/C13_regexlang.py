"""C13 (layer D) -- hexadecimal runs are same-case pairs, at any length."""
import sys

sys.path.insert(0, "/verif")
from vlib import prelude  # noqa: F401
import z3
from regexlang_common import LHEX, UHEX, inclusion

import multidecoder.decoders.hex as H

SAME = z3.Union(z3.Concat(z3.Loop(z3.Loop(LHEX, 2, 2), 10, 10), z3.Star(z3.Loop(LHEX, 2, 2))),
                z3.Concat(z3.Loop(z3.Loop(UHEX, 2, 2), 10, 10), z3.Star(z3.Loop(UHEX, 2, 2))))
OBLIGATIONS = [inclusion("hex_run_same_case_10_pairs", lambda: H.HEX_RE, 0, SAME, "HEX_RE: at least 10 pairs, all lower-case or all upper-case hex")]
for _o in OBLIGATIONS:
    globals()[_o.name] = _o.fn
