"""C16 (decoder part) -- shell commands are delimited and de-escaped by cmd.exe rules (layer C)."""
import sys

sys.path.insert(0, "/verif")
from vlib import prelude  # noqa: F401
from vlib import hx
from vlib.ref.codecs import b64_decode_chars, is_b64_char, same_bytes, utf8_encode
from vlib.ref.shell import ref_strip_carets
from vlib.sym import ball, band, between, bor
from vlib.tmpl import CLASSES, Tmpl

from decoders_common import k_contract, mk_template_ob

import multidecoder.decoders.shell as SH
from multidecoder.decoders.shell import find_cmd_strings, find_powershell_strings

OBLIGATIONS = []
CLASSES["nonnul"] = "({x} != 0)"
CLASSES["notcmdword"] = "(not ((48 <= {x} <= 57) or (65 <= {x} <= 90) or (97 <= {x} <= 122) or {x} == 95 or {x} == 34 or {x} == 92))"


def _add(name, tmpl, fn, tier="both", timeout=400, extra_pre="", funcs=(), splits=()):
    OBLIGATIONS.append(mk_template_ob(globals(), name, tmpl, fn, tier=tier, timeout=timeout, extra_pre=extra_pre,
                                      functions=funcs, bound="span / de-escaping oracle;", splits=splits))


def _cmd_oracle(data, start):
    """exactly one shell.cmd hit starting at `start` (the cmd token); end = first unbalanced ')' else next NUL else end"""
    ok, hits = k_contract(find_cmd_strings, data, "find_cmd_strings")
    if not ok:
        return False, True
    if len(hits) < 1:
        return hx.fail("find_cmd_strings: cmd token not reported", data=data, hits=hits), True
    h = hits[0]
    # (the free bytes may spell a second cmd token after a NUL; further hits must lie behind the first one)
    for other in hits[1:]:
        if other.start < h.end or other.type != "shell.cmd":
            return hx.fail("find_cmd_strings: overlapping / foreign extra hit", data=data, hits=hits), True
    n = len(data)
    end = n
    bal = 0
    for i in range(start, n):
        c = data[i]
        if c == 0:
            end = i
            break
        if c == 41:
            bal -= 1
        elif c == 40:
            bal += 1
        if bal < 0:
            end = i
            break
    if not (h.start == start and h.end == end and h.type == "shell.cmd"):
        return hx.fail("find_cmd_strings: span is not [cmd token, first unbalanced ')' / NUL / end of text)", data=data,
                       hit=h, want=(start, end)), True
    raw = list(data[start:end])
    want = ref_strip_carets(raw)
    changed = len(want) != len(raw) or bool(bor(*[a != b for a, b in zip(want, raw)])) if raw else False
    # stray closing quote glued to the command token: the implementation also re-joins the words -- the statement
    # only says the quote is dropped; in that case only span and label are checked.
    first = []
    for c in want:
        if (9 <= c <= 13) or c == 32:
            if first:
                break
            continue
        first.append(c)
    stray = len(first) >= 1 and ((first[-1] == 34 and first[0] != 34) or (first[-1] == 39 and first[0] != 39))
    if not stray:
        if not same_bytes(h.value, want):
            return hx.fail("find_cmd_strings: value is not the de-escaped text of exactly the span", data=data, hit=h,
                           want=bytes(want) if not hx.SYMBOLIC else None), True
    if (h.obfuscation == "unescape.shell.carets") != bool(changed):
        return hx.fail("find_cmd_strings: label not 'exactly when de-escaping changed it'", data=data, hit=h, changed=changed), True
    return True, end < n


FC = ["multidecoder.decoders.shell.find_cmd_strings", "multidecoder.decoders.shell.strip_carets"]
_add("cmd_free4", Tmpl(b"cmd ", 4), lambda d: _cmd_oracle(d, 0), funcs=FC)
_add("cmd_paren_block", Tmpl(b"(cmd /c a", 2, b")", 1, b")b"), lambda d: _cmd_oracle(d, 1), funcs=FC)
_add("cmd_prefix_free3", Tmpl((1, "notcmdword"), b"cmd", (1, "notcmdword"), 2), lambda d: _cmd_oracle(d, 1), funcs=FC)
_add("cmd_free5", Tmpl(b"cmd", (1, "notcmdword"), 4), lambda d: _cmd_oracle(d, 0), funcs=FC, tier="thorough", timeout=3000)

# ---- powershell: encoded command spellings --------------------------------------------------------
ENC_WORD = b"encodedcommand"


def _ps_enc(switch: bytes, nfree: int, quote: bytes = b""):
    head = b"powershell -nop " + switch + b" " + quote + b"QQBC" + b"QQBC"[: 4 - nfree]
    t = Tmpl(b" ", head, (nfree, "b64"), b"AA=="[: (4 - nfree) % 4 + 0] if False else b"", quote, b" x")
    # payload = 'QQBC' + nfree free alphabet characters (nfree = 4): 6 bytes = 3 UTF-16 code units

    def body(data):
        ok, hits = k_contract(find_powershell_strings, data, "find_powershell_strings")
        if not ok:
            return False, True
        s0 = 1
        b0 = s0 + len(head) - 4 - (4 - nfree)
        chars = list(data[b0: b0 + 8])
        raw = b64_decode_chars(chars)
        units = [(raw[i], raw[i + 1]) for i in range(0, len(raw) - 1, 2)]
        if bool(bor(*[between(0xD8, hi, 0xDF) for _lo, hi in units])):
            return True, False  # surrogate code units: outside this obligation
        if bool(band(units[0][0] == 0xFF, units[0][1] == 0xFE)) or bool(band(units[0][0] == 0xFE, units[0][1] == 0xFF)):
            return True, False
        text = []
        for lo, hi in units:
            text += utf8_encode(lo + 256 * hi)
        end = b0 + 8 + len(quote)
        want = list(b"powershell -nop -Command ") + text
        ps = [h for h in hits if h.type == "shell.powershell"]
        if len(ps) != 1 or len(hits) != 1:
            return hx.fail("find_powershell_strings: expected exactly one shell.powershell node", data=data, hits=hits), True
        h = ps[0]
        if not (h.start == s0 and h.end == end and h.obfuscation == "powershell.base64"):
            return hx.fail("find_powershell_strings: span is not [powershell token, end of the encoded argument)", data=data,
                           hit=h, want=(s0, end)), True
        if not same_bytes(h.value, want):
            return hx.fail("find_powershell_strings: value is not the invocation with -Command and the UTF-16 decoding", data=data,
                           hit=h, want=bytes(want) if not hx.SYMBOLIC else None), True
        return True, True

    return t, body


FP = ["multidecoder.decoders.shell.find_powershell_strings", "multidecoder.decoders.shell.strip_carets"]
for k in range(1, 15):
    for style in (b"-", b"/"):
        sw = style + ENC_WORD[:k]
        t, body = _ps_enc(sw, 2)
        _add(f"ps_enc_{'dash' if style == b'-' else 'slash'}_{k}", t, body, funcs=FP, timeout=600,
             tier="both" if (style == b"-" or k in (1, 3, 14)) else "thorough")
t, body = _ps_enc(b"-e", 4)
_add("ps_enc_dash_1_free4", t, body, funcs=FP, timeout=3000, tier="thorough")
t, body = _ps_enc(b"-EnC", 2, quote=b'"')
_add("ps_enc_quoted_mixedcase", t, body, funcs=FP, timeout=600)


# ---- powershell: delimiting by the enclosing quoted string -------------------------------------------
def ps_quoted(data, start=3):
    # data = 'x "powershell ' + 2 free + '" ' + 1 free ; expected end: the closing double quote
    ok, hits = k_contract(find_powershell_strings, data, "find_powershell_strings")
    if not ok:
        return False, True
    close = -1
    for i in range(start, len(data)):
        if data[i] == 34:
            close = i
            break
    if close < 0:
        return True, False
    ps = [h for h in hits if h.type == "shell.powershell" and h.start == start]
    if not ps:
        return hx.fail("find_powershell_strings: quoted powershell string not reported", data=data, hits=hits), True
    for h in ps:
        if h.end != close:
            return hx.fail("find_powershell_strings: does not end at the close of the enclosing quoted string", data=data, hit=h,
                           want=close), True
    return True, True


def ps_squoted(data):
    ok, hits = k_contract(find_powershell_strings, data, "find_powershell_strings")
    if not ok:
        return False, True
    close = -1
    for i in range(1, len(data)):
        if data[i] == 39:
            close = i
            break
    # a double quote inside takes precedence in the look-back only if it comes later; keep to the single-quote case
    if close < 0 or any(c == 34 for c in data):
        return True, False
    ps = [h for h in hits if h.type == "shell.powershell" and h.start == 1]
    if not ps:
        return hx.fail("find_powershell_strings: quoted powershell string not reported", data=data, hits=hits), True
    for h in ps:
        if h.end != close:
            return hx.fail("find_powershell_strings: does not end at the close of the enclosing quoted string", data=data, hit=h, want=close), True
    return True, True


_add("ps_in_double_quotes", Tmpl(b'x "powershell ', (2, "nonnul"), b'" ', 1), ps_quoted, funcs=FP, timeout=600,
     extra_pre="h0 != 45 and h0 != 47 and h1 != 45 and h1 != 47")

_add("ps_in_double_quotes_at_offset_0", Tmpl(b'"powershell ', (2, "nonnul"), b'" ', 1), lambda d: ps_quoted(d, 1), funcs=FP, timeout=600,
     extra_pre="h0 != 45 and h0 != 47 and h1 != 45 and h1 != 47")
_add("ps_in_single_quotes_at_offset_0", Tmpl(b"'pwsh ", (2, "nonnul"), b"' ", 1), lambda d: ps_squoted(d), funcs=FP, timeout=600,
     extra_pre="h0 != 45 and h0 != 47 and h1 != 45 and h1 != 47")


def ps_no_context(data):
    # 'ab;powershell ' + 2 free (no quote, no FOR-loop opener before the token): the result runs to the end of the text
    ok, hits = k_contract(find_powershell_strings, data, "find_powershell_strings")
    if not ok:
        return False, True
    start = 3
    ps = [h for h in hits if h.type == "shell.powershell" and h.start == start]
    if not ps:
        return hx.fail("find_powershell_strings: unquoted powershell string not reported", data=data, hits=hits), True
    for h in ps:
        if h.end != len(data):
            if hx.known("C03-ps-nocontext-end") and h.end == len(data) - h.start:
                continue  # known finding (pinned by a test): end = len(data) - start
            return hx.fail("find_powershell_strings: without an enclosing context the result must run to the end of the text",
                           data=data, hit=h, want=len(data)), True
    return True, True


_add("ps_no_context_runs_to_end", Tmpl(b"ab;powershell ", (2, "nonnul"), b" x"), ps_no_context, funcs=FP, timeout=600,
     extra_pre="h0 != 45 and h0 != 47 and h1 != 45 and h1 != 47 and h0 != 34 and h0 != 39 and h1 != 34 and h1 != 39")
