"""C02 -- layered obfuscation round-trips: every layer is peeled, in order, to the payload (layer C,
small real registries through Multidecoder.scan + Node.flatten).

S1: one layer at an offset between free neutral bytes; S2: two nested layers.  Stacks of height > 2 follow by
induction from S1 (each layer is peeled exactly) and C08 (children of a decoded node are a scan of its value) --
a paper argument, not a solver result.  PowerShell byte arrays (>= 501 elements) are outside any symbolic bound."""
import sys

sys.path.insert(0, "/verif")
from vlib import prelude  # noqa: F401
from vlib import hx
from vlib.ref.codecs import b64_decode_chars, digits_value, percent_decode, same_bytes
from vlib.tmpl import CLASSES, Tmpl

from decoders_common import mk_template_ob

from multidecoder.decoders.base64 import find_atob
from multidecoder.decoders.concat import find_concat
from multidecoder.decoders.filename import find_executable_name
from multidecoder.decoders.javascript import find_unescape
from multidecoder.decoders.reverse import find_reverse
from multidecoder.decoders.xml import find_xml_hex
from multidecoder.multidecoder import Multidecoder

OBLIGATIONS = []
CLASSES["neutral2"] = "({x} == 32 or {x} == 59 or {x} == 10 or {x} == 0 or {x} == 123)"
CLASSES["in_GW"] = "({x} == 71 or {x} == 87)"
CLASSES["in_UV"] = "({x} == 85 or {x} == 86)"
CLASSES["plain"] = "((97 <= {x} <= 122) or (48 <= {x} <= 57) or {x} == 32 or {x} == 45)"  # payload alphabet: no quotes/escapes/operators


def _add(name, tmpl, fn, tier="both", timeout=600, extra_pre="", funcs=()):
    OBLIGATIONS.append(mk_template_ob(globals(), name, tmpl, fn, tier=tier, timeout=timeout, extra_pre=extra_pre,
                                      functions=funcs + ["multidecoder.multidecoder.Multidecoder.scan", "multidecoder.node.Node.flatten"],
                                      bound="restricted registry (the layer decoders + one indicator decoder);"))


def chain_ok(data, root, layers, prefix_len, enc_len, payload, indicator=None):
    """layers: [(type, label, value list)] outermost first; exactly one node per layer, nested; outermost covers
    exactly [prefix_len, prefix_len + enc_len)"""
    node = root
    for depth, (typ, label, val) in enumerate(layers):
        kids = node.children
        if len(kids) != 1:
            return hx.fail(f"layer {depth}: expected exactly one node", data=data, tree=root, kids=kids)
        k = kids[0]
        if k.type != typ or k.obfuscation != label:
            return hx.fail(f"layer {depth}: wrong type/label", data=data, node=k, want=(typ, label))
        if not same_bytes(k.value, val):
            return hx.fail(f"layer {depth}: value is not the successive plaintext", data=data, node=k)
        if depth == 0 and not (k.start == prefix_len and k.end == prefix_len + enc_len):
            return hx.fail("outermost node does not cover exactly the encoded span", data=data, node=k, want=(prefix_len, prefix_len + enc_len))
        node = k
    if indicator is None:
        if node.children:
            return hx.fail("unexpected nodes beneath the payload", data=data, node=node)
    else:
        ityp, s, e = indicator
        if len(node.children) != 1 or not (node.children[0].type == ityp and node.children[0].start == s and node.children[0].end == e):
            return hx.fail("indicator inside the payload not reported beneath it", data=data, node=node)
    return True


def flat_ok(data, root, prefix, suffix, payload, quoted):
    got = root.flatten()
    want = list(prefix) + ([34] + list(payload) + [34] if quoted else list(payload)) + list(suffix)
    if not same_bytes(got, want):
        return hx.fail("flatten is not the neutral text with the payload substituted", data=data, got=got)
    return True


# ---- S1 ---------------------------------------------------------------------------------------------------

def s1_reverse(data):
    # P + reverse(' c b a ') + S   payload 3 free plain bytes
    md = Multidecoder(decoders=[find_reverse, find_concat, find_executable_name])
    root = md.scan(data)
    enc = data[1:-1]
    payload = list(data[10:13])[::-1]
    r = chain_ok(data, root, [("string", "reverse", payload)], 1, len(enc), payload)
    if r is not True:
        return r, True
    return flat_ok(data, root, data[:1], data[-1:], payload, True), True


_add("s1_reverse", Tmpl((1, "neutral2"), b"reverse('", (3, "plain"), b"')", (1, "neutral2")), s1_reverse,
     funcs=["multidecoder.decoders.reverse.find_reverse"])


def s1_concat(data):
    md = Multidecoder(decoders=[find_reverse, find_concat, find_executable_name])
    root = md.scan(data)
    payload = list(data[2:4]) + list(data[7:9])
    r = chain_ok(data, root, [("string", "concatenation", payload)], 1, len(data) - 2, payload)
    if r is not True:
        return r, True
    return flat_ok(data, root, data[:1], data[-1:], payload, True), True


_add("s1_concat", Tmpl((1, "neutral2"), b"'", (2, "plain"), b"'+'", (2, "plain"), b"'", (1, "neutral2")), s1_concat,
     funcs=["multidecoder.decoders.concat.find_concat"])


def s1_unescape(data):
    md = Multidecoder(decoders=[find_unescape, find_reverse, find_executable_name])
    root = md.scan(data)
    arg = list(data[11:18])
    payload = percent_decode(arg)
    r = chain_ok(data, root, [("string", "function.unescape", payload)], 1, len(data) - 2, payload)
    if r is not True:
        return r, True
    return flat_ok(data, root, data[:1], data[-1:], payload, True), True


_add("s1_unescape", Tmpl((1, "neutral2"), b"unescape('%", (2, "lhex"), b"%4", (1, "digit"), b"x')", (1, "neutral2")), s1_unescape,
     funcs=["multidecoder.decoders.javascript.find_unescape"],
     extra_pre="not (h1 == 50 and h2 == 55) and not (h1 == 50 and h2 == 50)")  # payload may not be a quote character


def s1_atob(data):
    md = Multidecoder(decoders=[find_atob, find_reverse, find_executable_name])
    root = md.scan(data)
    chars = list(data[7:15])
    payload = b64_decode_chars(chars)
    r = chain_ok(data, root, [("javascript.string", "encoding.base64", payload)], 1, len(data) - 2, payload)
    if r is not True:
        return r, True
    return flat_ok(data, root, data[:1], data[-1:], payload, True), True


# payload bytes 'ab' + 4 bytes from two free base64 characters inside 'YWJ?' 'Y?Jj' patterns is awkward; keep the quantum concrete
# except two characters whose sextets only touch payload bits: 'YWJj' 'ZG' + 2 free -> last quantum free in its low bits
_add("s1_atob", Tmpl((1, "neutral2"), b"atob('YWJjZ", (1, "in_GW"), (1, "in_UV"), b"m')", (1, "neutral2")), s1_atob,
     funcs=["multidecoder.decoders.base64.find_atob"])


def s1_xml(data):
    md = Multidecoder(decoders=[find_xml_hex, find_reverse, find_executable_name])
    root = md.scan(data)
    d = digits_value(list(data[9:11]))
    payload = [97, 100 + d, 98, 99, 100]
    r = chain_ok(data, root, [("", "unescape.xml", payload)], 1, len(data) - 2, payload)
    if r is not True:
        return r, True
    return flat_ok(data, root, data[:1], data[-1:], payload, False), True


_add("s1_xml_refs", Tmpl((1, "neutral2"), b"&#97;&#1", (2, "digit"), b";&#98;&#x63;&#100;", (1, "neutral2")), s1_xml,
     funcs=["multidecoder.decoders.xml.find_xml_hex"], extra_pre="not (h1 == 50 and h2 >= 56) and not (h1 > 50)")  # 100..127


# ---- S2 ---------------------------------------------------------------------------------------------------

def s2_reverse_concat(data):
    # P + reverse('"' d c '"+"' b a '"') + S : outer reverse -> "ab"+"cd" ; inner concat -> abcd
    md = Multidecoder(decoders=[find_reverse, find_concat, find_executable_name])
    root = md.scan(data)
    inner_rev = list(data[10:-3])
    plain1 = inner_rev[::-1]
    a, b = plain1[1:3], plain1[6:8]
    payload = a + b
    r = chain_ok(data, root, [("string", "reverse", plain1), ("string", "concatenation", payload)], 1, len(data) - 2, payload)
    if r is not True:
        return r, True
    got = root.flatten()
    want = list(data[:1]) + [34, 34] + payload + [34, 34] + list(data[-1:])
    if not same_bytes(got, want):
        return hx.fail("flatten of a two-layer stack", data=data, got=got), True
    return True, True


_add("s2_reverse_of_concat", Tmpl((1, "neutral2"), b"reverse('\"", (2, "plain"), b"\"+\"", (2, "plain"), b"\"')", (1, "neutral2")),
     s2_reverse_concat, funcs=["multidecoder.decoders.reverse.find_reverse", "multidecoder.decoders.concat.find_concat"])


def s2_concat_indicator(data):
    # concat producing an .exe file name: the indicator inside the payload is reported beneath it
    md = Multidecoder(decoders=[find_concat, find_reverse, find_executable_name])
    root = md.scan(data)
    payload = list(data[2:4]) + list(b"x.e") + list(b"xe")
    r = chain_ok(data, root, [("string", "concatenation", payload)], 1, len(data) - 2, payload,
                 indicator=("executable.filename", 0, 7))
    return (True, True) if r is True else (r, True)


_add("s1_concat_with_indicator", Tmpl((1, "neutral2"), b"'", (2, "lower"), b"x.e'+'xe'", (1, "neutral2")), s2_concat_indicator,
     funcs=["multidecoder.decoders.concat.find_concat", "multidecoder.decoders.filename.find_executable_name"])


def s1_reverse_inside_plain_context(data):
    # an undecoded (unlabelled) context node -- a cmd string without carets -- encloses the encoded blob: the payload is
    # still substituted when flattening, through the context
    from multidecoder.decoders.shell import find_cmd_strings

    md = Multidecoder(decoders=[find_cmd_strings, find_reverse, find_executable_name])
    root = md.scan(data)
    e0 = data.index(b"reverse(")  # absolute start of the encoded expression (concrete part of the skeleton)
    payload = list(data[e0 + 9: e0 + 12])[::-1]
    if len(root.children) != 1 or root.children[0].type != "shell.cmd" or root.children[0].obfuscation != "":
        return hx.fail("expected one plain shell.cmd context", data=data, tree=root), True
    ctx = root.children[0]
    r = chain_ok(data, ctx, [("string", "reverse", payload)], e0 - 1, 14, payload)
    if r is not True:
        return r, True
    got = root.flatten()
    want = list(data[:e0]) + [34] + payload + [34] + list(data[e0 + 14:])
    if not same_bytes(got, want):
        return hx.fail("flatten does not substitute the payload inside an undecoded context", data=data, got=got), True
    return True, True


_add("s1_reverse_inside_plain_context", Tmpl(b" cmd /c echo reverse('", (3, "digit"), b"') ", (1, "digit")), s1_reverse_inside_plain_context,
     funcs=["multidecoder.decoders.shell.find_cmd_strings", "multidecoder.decoders.reverse.find_reverse"])


def s1_hex_with_base64_in_registry(data):
    # a bare hexadecimal layer (upper- or lower-case) while the base64 decoder is registered as well: the hex text is
    # also a syntactically valid base64 blob; it must be reported as hexadecimal only
    from multidecoder.decoders.base64 import find_base64
    from multidecoder.decoders.hex import find_hex
    from vlib.ref.codecs import hex_decode_chars

    md = Multidecoder(decoders=[find_base64, find_hex, find_executable_name])
    root = md.scan(data)
    enc = list(data[1:-1])
    payload = hex_decode_chars(enc)
    r = chain_ok(data, root, [("", "decoded.hexadecimal", payload)], 1, len(enc), payload)
    if r is not True:
        return r, True
    return flat_ok(data, root, data[:1], data[-1:], payload, False), True


_add("s1_hex_upper_with_base64_registered", Tmpl(b" ", b"4A4B4C4D4E4F5A5B5C5D", (2, "uhex"), b"7E", b" "), s1_hex_with_base64_in_registry,
     funcs=["multidecoder.decoders.hex.find_hex", "multidecoder.decoders.base64.find_base64"], extra_pre="not (h0 == 48 and h1 == 48)")
_add("s1_hex_lower_with_base64_registered", Tmpl(b" ", b"4a4b4c4d4e4f5a5b5c5d", (2, "lhex"), b"7e", b" "), s1_hex_with_base64_in_registry,
     funcs=["multidecoder.decoders.hex.find_hex", "multidecoder.decoders.base64.find_base64"], extra_pre="not (h0 == 48 and h1 == 48)")


def s2_unescape_of_reverse(data):
    # P + unescape('reverse(%27' b a '%27)') + S : outer percent-unescape -> reverse('ba') ; inner reverse -> ab
    md = Multidecoder(decoders=[find_unescape, find_reverse, find_executable_name])
    root = md.scan(data)
    e0 = data.index(b"unescape(")
    lit = list(data[e0 + 21: e0 + 23])
    plain1 = list(b"reverse('") + lit + list(b"')")
    payload = lit[::-1]
    enc_len = len(b"unescape('reverse(%27") + 2 + len(b"%27)')")
    r = chain_ok(data, root, [("string", "function.unescape", plain1), ("string", "reverse", payload)], e0, enc_len, payload)
    if r is not True:
        return r, True
    got = root.flatten()
    want = list(data[:e0]) + [34, 34] + payload + [34, 34] + list(data[e0 + enc_len:])
    if not same_bytes(got, want):
        return hx.fail("flatten of a two-layer stack (unescape of reverse)", data=data, got=got), True
    return True, True


_add("s2_unescape_of_reverse", Tmpl((1, "neutral2"), b"unescape('reverse(%27", (2, "plain"), b"%27)')", (1, "neutral2")), s2_unescape_of_reverse,
     funcs=["multidecoder.decoders.javascript.find_unescape", "multidecoder.decoders.reverse.find_reverse"])


def s2_reverse_of_reverse(data):
    # the same encoding twice: P + reverse(')"' a b '"(esrever') + S -> reverse("ba") -> ab
    md = Multidecoder(decoders=[find_reverse, find_concat, find_executable_name])
    root = md.scan(data)
    e0 = data.index(b"reverse('")
    inner = list(data[e0 + 9: e0 + 9 + 13])  # )"xy"(esrever
    plain1 = inner[::-1]  # reverse("yx")
    payload = plain1[9:11][::-1]
    r = chain_ok(data, root, [("string", "reverse", plain1), ("string", "reverse", payload)], e0, 9 + 13 + 2, payload)
    if r is not True:
        return r, True
    return True, True


_add("s2_reverse_of_reverse", Tmpl((1, "neutral2"), b"reverse(')\"", (2, "plain"), b"\"(esrever')", (1, "neutral2")), s2_reverse_of_reverse,
     funcs=["multidecoder.decoders.reverse.find_reverse"])


def s3_unescape_reverse_concat(data):
    # three layers: P + unescape('reverse(%27"' d c '"+"' b a '"%27)') + S
    #   percent-unescape -> reverse('"dc"+"ba"') ; reverse -> "ab"+"cd" ; concatenation -> abcd
    md = Multidecoder(decoders=[find_unescape, find_reverse, find_concat, find_executable_name])
    root = md.scan(data)
    e0 = data.index(b"unescape(")
    head = b"unescape('reverse(%27\""
    x = list(data[e0 + len(head): e0 + len(head) + 2])
    y = list(data[e0 + len(head) + 5: e0 + len(head) + 7])
    inner = [34] + x + list(b'"+"') + y + [34]
    plain1 = list(b"reverse('") + inner + list(b"')")
    plain2 = inner[::-1]
    payload = y[::-1] + x[::-1]
    enc_len = len(head) + 7 + len(b"\"%27)')")
    r = chain_ok(data, root, [("string", "function.unescape", plain1), ("string", "reverse", plain2),
                              ("string", "concatenation", payload)], e0, enc_len, payload)
    if r is not True:
        return r, True
    got = root.flatten()
    want = list(data[:e0]) + [34, 34, 34] + payload + [34, 34, 34] + list(data[e0 + enc_len:])
    if not same_bytes(got, want):
        return hx.fail("flatten of a three-layer stack", data=data, got=got), True
    return True, True


_add("s3_unescape_of_reverse_of_concat",
     Tmpl((1, "neutral2"), b"unescape('reverse(%27\"", (2, "plain"), b"\"+\"", (2, "plain"), b"\"%27)')", (1, "neutral2")),
     s3_unescape_reverse_concat, tier="thorough", timeout=1800,
     funcs=["multidecoder.decoders.javascript.find_unescape", "multidecoder.decoders.reverse.find_reverse",
            "multidecoder.decoders.concat.find_concat"])
_add("s3_unescape_of_reverse_of_concat_2free",
     Tmpl(b" ", b"unescape('reverse(%27\"", (1, "plain"), b"x\"+\"y", (1, "plain"), b"\"%27)')", b";"),
     s3_unescape_reverse_concat, tier="quick",
     funcs=["multidecoder.decoders.javascript.find_unescape", "multidecoder.decoders.reverse.find_reverse",
            "multidecoder.decoders.concat.find_concat"])


# ---- a layer whose decoder attaches no obfuscation label (as find_powershell_bytes does without a key) ------------
import regex as _re
from multidecoder.node import Node as _Node
from multidecoder.registry import decoder as _decoder


@_decoder
def find_unlabelled_layer(data):
    """stand-in for a decoder that decodes (value differs from the covered text) but leaves the label empty"""
    return [_Node("string", m.group(1), "", *m.span()) for m in _re.finditer(rb"<<([^<>]*)>>", data)]


def s2_unlabelled_layer_of_reverse(data):
    # P + <<reverse('ba')>> + S : the unlabelled layer -> reverse('ba') ; reverse -> ab
    md = Multidecoder(decoders=[find_unlabelled_layer, find_reverse, find_executable_name])
    root = md.scan(data)
    e0 = data.index(b"<<")
    lit = list(data[e0 + 11: e0 + 13])
    plain1 = list(b"reverse('") + lit + list(b"')")
    payload = lit[::-1]
    r = chain_ok(data, root, [("string", "", plain1), ("string", "reverse", payload)], e0, 2 + 13 + 2, payload)
    if r is not True:
        return r, True
    got = root.flatten()
    want = list(data[:e0]) + [34, 34] + payload + [34, 34] + list(data[e0 + 17:])
    if not same_bytes(got, want):
        return hx.fail("flatten of a two-layer stack (unlabelled layer of reverse)", data=data, got=got), True
    return True, True


_add("s2_unlabelled_layer_of_reverse", Tmpl((1, "neutral2"), b"<<reverse('", (2, "plain"), b"')>>", (1, "neutral2")),
     s2_unlabelled_layer_of_reverse, funcs=["multidecoder.decoders.reverse.find_reverse"])
