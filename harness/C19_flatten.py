"""C19 -- flattening substitutes decoded values for their original spans and nothing else (layer B).

Tree templates over a root text of n free bytes.  Child spans are free integers which the
harness pins by explicit case split (slicing real bytes needs concrete offsets), so the check is
exhaustive over all span combinations by solver-driven enumeration, and symbolic in the bytes."""
import sys

sys.path.insert(0, "/verif")
from vlib import prelude  # noqa: F401
from vlib import hx
from vlib.hx import Ob, bytes_params
from vlib.ref.codecs import same_bytes

from multidecoder.node import Node
from multidecoder.query import squash_replace
import warnings


def pin(x, lo, hi):
    """case split: returns x as a concrete int (one path per value)"""
    for v in range(lo, hi + 1):
        if x == v:
            return v
    raise AssertionError("out of range")


def ref_flatten(value, children):
    """reference flatten on lists; children = [(start, end, flat_value(list), is_string)] ordered by start"""
    out = []
    pos = 0
    last_sub_end = 0
    changed = False
    for (s, e, flat, is_string) in children:
        if s < last_sub_end:
            continue  # starts before the end of the last substituted one
        cover = value[s:e]
        same = len(flat) == len(cover)
        if same:
            acc = True
            for a, b in zip(flat, cover):
                acc = acc & (a == b)
            same = acc
        if same:
            continue  # flattened value equals the text it covers: left alone
        out += value[pos:s]
        if is_string:
            out += [34] + flat + [34]
        else:
            out += flat
        pos = e
        last_sub_end = e
        changed = True
    out += value[pos:]
    return out


def two_children(r0, r1, r2, r3, s0, e0, s1, e1, f0, f1, q0, q1, v0, v1, g):
    n = 4
    root_bytes = [r0, r1, r2, r3]
    s0, e0, s1, e1 = pin(s0, 0, n), pin(e0, 0, n), pin(s1, 0, n), pin(e1, 0, n)
    rootv = bytes(root_bytes)
    kids = []
    spec = []
    for (s, e, fresh, q, v) in ((s0, e0, f0, q0, v0), (s1, e1, f1, q1, v1)):
        val = bytes([v, v ^ 1][: 1 + (e - s) % 2]) if fresh else rootv[s:e]
        typ = "x.string" if q else "t"
        kids.append(Node(typ, val, "o" if fresh else "", s, e))
        spec.append((s, e, list(val), bool(q)))
    # optional grandchild under child 0: replaces the first byte of child 0's value by two bytes
    if g and len(kids[0].value) >= 1:
        gc = Node("t", bytes([v1, v0]), "o", 0, 1, parent=kids[0])
        kids[0].children.append(gc)
        c0 = list(kids[0].value)
        flat0 = ref_flatten(c0, [(0, 1, [v1, v0], False)])
        spec[0] = (spec[0][0], spec[0][1], flat0, spec[0][3])
    root = Node("", rootv, "", 0, n, children=kids or None)
    got = root.flatten()
    want = ref_flatten(root_bytes, spec)
    if not same_bytes(got, want):
        return hx.fail("flatten differs from the reference", root=rootv, kids=kids, got=got,
                       want=bytes(want) if not hx.SYMBOLIC else None), True
    # deprecated twin used by the CLI: equal whenever no two substituted results overlap
    if e0 <= s1:
        with warnings.catch_warnings():
            warnings.simplefilter("ignore")
            sq = squash_replace(rootv, root.children)
        if not same_bytes(sq, want):
            return hx.fail("squash_replace differs from flatten on non-overlapping children", root=rootv, kids=kids, got=sq), True
    return True, bool(f0) or bool(f1)


_SP = "0 <= s0 <= e0 <= 4 and 0 <= s1 <= e1 <= 4 and s0 <= s1"
OBLIGATIONS = [
    Ob("flatten_two_children", two_children,
       bytes_params("r", 4) + [("s0", "int:0:4"), ("e0", "int:0:4"), ("s1", "int:0:4"), ("e1", "int:0:4"),
                                ("f0", "bool"), ("f1", "bool"), ("q0", "bool"), ("q1", "bool"), ("v0", "byte"), ("v1", "byte"),
                                ("g", "bool")],
       pre=_SP, tier="both", timeout=500, layer="B",
       splits=[f"f0 == {a} and f1 == {b} and g == {c}" for a in (True, False) for b in (True, False) for c in (True, False)],
       functions=["multidecoder.node.Node.flatten", "multidecoder.query.squash_replace"],
       bound="root text of 4 free bytes; 2 children with free in-bounds spans ordered by start (all combinations, incl. "
             "overlapping and nested), each either the covered text or a fresh 1-2 byte value, free '...string' type; "
             "optional grandchild under the first child"),
]


def identity_plain(r0, r1, r2, r3, r4, s0, e0, s1, e1, s2, e2):
    """a tree in which no value differs from the text it covers flattens to the root value unchanged"""
    n = 5
    rb = bytes([r0, r1, r2, r3, r4])
    s0, e0, s1, e1 = pin(s0, 0, n), pin(e0, 0, n), pin(s1, 0, n), pin(e1, 0, n)
    c0 = Node("a", rb[s0:e0], "", s0, e0)
    c1 = Node("b.string", rb[s1:e1], "", s1, e1)
    # grandchild inside c0
    L = e0 - s0
    s2, e2 = pin(s2, 0, n), pin(e2, 0, n)
    if e2 <= L:
        Node("c", c0.value[s2:e2], "", s2, e2, parent=c0)
        c0.children.append(Node("c", c0.value[s2:e2], "", s2, e2, parent=c0))
    root = Node("", rb, "", 0, n, children=[c0, c1])
    got = root.flatten()
    if not same_bytes(got, list(rb)):
        return hx.fail("flatten changed a tree in which nothing is decoded", root=rb, got=got), True
    return True, True


OBLIGATIONS.append(Ob("flatten_identity_when_nothing_decoded", identity_plain,
                      bytes_params("r", 5) + [("s0", "int:0:5"), ("e0", "int:0:5"), ("s1", "int:0:5"), ("e1", "int:0:5"),
                                               ("s2", "int:0:5"), ("e2", "int:0:5")],
                      pre="0 <= s0 <= e0 <= 5 and 0 <= s1 <= e1 <= 5 and s0 <= s1 and 0 <= s2 <= e2 <= 5",
                      tier="both", timeout=500, layer="B", functions=["multidecoder.node.Node.flatten"],
                      bound="root of 5 free bytes, two plain children (one of '...string' type) and a plain grandchild, all spans free"))


# ---- thorough: three children over a root of 5 bytes ---------------------------------------------------------
def three_children(r0, r1, r2, r3, r4, s0, e0, s1, e1, s2, e2, f0, f1, f2, q1, v0, v1):
    n = 5
    root_bytes = [r0, r1, r2, r3, r4]
    s0, e0, s1, e1, s2, e2 = pin(s0, 0, n), pin(e0, 0, n), pin(s1, 0, n), pin(e1, 0, n), pin(s2, 0, n), pin(e2, 0, n)
    rootv = bytes(root_bytes)
    kids, spec = [], []
    for idx, (s, e, fresh) in enumerate(((s0, e0, f0), (s1, e1, f1), (s2, e2, f2))):
        val = bytes([v0, v1][: 1 + (e - s) % 2]) if fresh else rootv[s:e]
        typ = "x.string" if (idx == 1 and q1) else "t"
        kids.append(Node(typ, val, "o" if fresh else "", s, e))
        spec.append((s, e, list(val), typ.endswith("string")))
    root = Node("", rootv, "", 0, n, children=kids)
    got = root.flatten()
    want = ref_flatten(root_bytes, spec)
    if not same_bytes(got, want):
        return hx.fail("flatten differs from the reference (3 children)", root=rootv, kids=kids, got=got), True
    return True, bool(f0) or bool(f1) or bool(f2)


OBLIGATIONS.append(Ob("flatten_three_children", three_children,
                      bytes_params("r", 5) + [("s0", "int:0:5"), ("e0", "int:0:5"), ("s1", "int:0:5"), ("e1", "int:0:5"), ("s2", "int:0:5"), ("e2", "int:0:5")]
                      + [("f0", "bool"), ("f1", "bool"), ("f2", "bool"), ("q1", "bool"), ("v0", "byte"), ("v1", "byte")],
                      pre="0 <= s0 <= e0 <= 5 and 0 <= s1 <= e1 <= 5 and 0 <= s2 <= e2 <= 5 and s0 <= s1 <= s2",
                      splits=[f"f0 == {a} and f1 == {b} and f2 == {c} and s0 == {k}" for a in (True, False) for b in (True, False)
                              for c in (True, False) for k in range(6)],
                      tier="thorough", timeout=1500, layer="B", functions=["multidecoder.node.Node.flatten"],
                      bound="root of 5 free bytes; 3 children with ALL in-bounds span combinations ordered by start, fresh or covered values"))
