"""C10 -- reported network indicators are well-formed and normalised (layer C): output predicates of the
statement evaluated on every node the network decoders return, over skeleton inputs with free holes."""
import sys

sys.path.insert(0, "/verif")
from vlib import prelude  # noqa: F401
from vlib import hx
from vlib.ref.codecs import digits_value, same_bytes
from vlib.ref.url import ref_normalize_percent, split_on
from vlib.sym import ball, band, between, bor
from vlib.tmpl import CLASSES, Tmpl

from decoders_common import k_contract, mk_template_ob

from multidecoder.decoders.network import find_domains, find_emails, find_ips, find_urls
from multidecoder.domains import TOP_LEVEL_DOMAINS

OBLIGATIONS = []
CLASSES["ldhdot"] = "((48 <= {x} <= 57) or (65 <= {x} <= 90) or (97 <= {x} <= 122) or {x} == 45 or {x} == 46)"


def _add(name, tmpl, fn, tier="both", timeout=600, extra_pre="", funcs=(), splits=()):
    OBLIGATIONS.append(mk_template_ob(globals(), name, tmpl, fn, tier=tier, timeout=timeout, extra_pre=extra_pre,
                                      functions=funcs, bound="output predicates of the statement;", splits=splits))


def canonical_quad(v):
    """four decimal parts 0-255 without leading zeros"""
    parts = split_on(list(v), 46)
    if len(parts) != 4:
        return False
    acc = True
    for p in parts:
        if not (1 <= len(p) <= 3):
            return False
        acc = acc & ball(between(48, c, 57) for c in p)
        if len(p) > 1:
            acc = acc & (p[0] != 48)
        acc = acc & (digits_value(p) <= 255)
    return acc


def domain_ok(v, free_text):
    v = list(v)
    parts = split_on(v, 46)
    if len(parts) < 2 or len(parts[-1]) == 0:
        return "no name.tld shape"
    name_len = len(v) - len(parts[-1]) - 1
    if name_len < 1:
        return "empty name"
    tld = bytes(parts[-1]).upper()  # the TLD is concrete in every skeleton (set membership would be enumerated)
    if tld not in TOP_LEVEL_DOMAINS:
        return "top-level domain not registered"
    if free_text:
        if len(v) < 7:
            return "shorter than seven characters"
        if not ball(bor(between(48, c, 57), between(65, c, 90), between(97, c, 122), c == 45, c == 46) for c in v):
            return "characters other than letters, digits, hyphens and dots"
    return ""


def check_nodes(dec, data, what):
    ok, hits = k_contract(dec, data, what)
    if not ok:
        return False, True
    todo = [(h, True, data) for h in hits]
    seen_any = False
    while todo:
        n, top, ctx = todo.pop()
        cov = ctx[n.start:n.end]
        if n.type == "network.ip":
            seen_any = True
            if not canonical_quad(n.value):
                return hx.fail("network.ip value is not a canonical dotted quad", data=data, node=n), True
            if top and not same_bytes(n.value, list(cov)):
                return hx.fail("free-text IP value differs from the text it covers", data=data, node=n), True
        elif n.type == "network.domain":
            seen_any = True
            msg = domain_ok(n.value, top)
            if msg:
                return hx.fail("network.domain: " + msg, data=data, node=n), True
            if top and not same_bytes(n.value, list(cov)):
                return hx.fail("free-text domain differs from the text it covers", data=data, node=n), True
        elif n.type == "network.email":
            seen_any = True
            v = list(n.value)
            at = [i for i, c in enumerate(v) if c == 64]
            if not at or at[-1] == 0:
                return hx.fail("e-mail without local-part@domain shape", data=data, node=n), True
            msg = domain_ok(v[at[-1] + 1:], False)
            if msg:
                return hx.fail("e-mail domain: " + msg, data=data, node=n), True
        elif n.type == "network.url":
            seen_any = True
            want, shortened = ref_normalize_percent(list(cov))
            if not same_bytes(n.value, want):
                return hx.fail("url value is not the covered text with normalised percent-escapes", data=data, node=n), True
            if (n.obfuscation == "escape.percent") != bool(shortened):
                return hx.fail("url escape.percent label not 'exactly when that shortened the text'", data=data, node=n), True
            low = bytes(n.value[:8]).lower() if not hx.SYMBOLIC else None
            v = list(n.value)
            sch = []
            for c in v:
                if c == 58:
                    break
                sch.append(c + 32 * between(65, c, 90))
            if not (same_bytes(sch, list(b"http")) or same_bytes(sch, list(b"https")) or same_bytes(sch, list(b"ftp"))):
                return hx.fail("url scheme not http/https/ftp", data=data, node=n), True
            # non-empty host: after "://" (and an optional userinfo@) something other than / ? # : must follow
            rest = v[len(sch) + 3:]
            auth = []
            for c in rest:
                if c == 47 or c == 63 or c == 35:
                    break
                auth.append(c)
            at = [i for i, c in enumerate(auth) if c == 64]
            hostport = auth[at[-1] + 1:] if at else auth
            if len(hostport) == 0 or hostport[0] == 58:
                return hx.fail("url with an empty host", data=data, node=n), True
            for c in n.children:
                todo.append((c, False, n.value))
    return True, seen_any


FI = ["multidecoder.decoders.network.find_ips", "multidecoder.decoders.network.parse_ip", "multidecoder.decoders.network.is_ip"]
_add("ip_octet_digit", Tmpl(b" 1", (1, "digit"), b".2.3.4 "), lambda d: check_nodes(find_ips, d, "find_ips"), funcs=FI, timeout=900)
_add("ip_leading_zero_forms", Tmpl(b" 0", (1, "digit"), b".2.3.04 "), lambda d: (check_nodes(find_ips, d, "find_ips")[0], True), funcs=FI, timeout=900)
_add("ip_tail_free2", Tmpl(b" 10.2.3.", 2), lambda d: check_nodes(find_ips, d, "find_ips"), funcs=FI, timeout=900)
_add("ip_edges", Tmpl(1, b"10.2.3.4", 1), lambda d: check_nodes(find_ips, d, "find_ips"), funcs=FI, timeout=900)
FD = ["multidecoder.decoders.network.find_domains", "multidecoder.decoders.network.is_domain"]
_add("domain_label_free2", Tmpl(b" ex", 2, b"le.com "), lambda d: check_nodes(find_domains, d, "find_domains"), funcs=FD)
_add("domain_edges", Tmpl(1, b"a.co", 1, b"m", 1), lambda d: check_nodes(find_domains, d, "find_domains"), funcs=FD)
_add("domain_short", Tmpl(b" ", (3, "ldhdot"), b".com "), lambda d: check_nodes(find_domains, d, "find_domains"), funcs=FD)
_add("email_local_free", Tmpl(b" a", 3, b"@example.com "), lambda d: check_nodes(find_emails, d, "find_emails"),
     funcs=["multidecoder.decoders.network.find_emails"])
FU = ["multidecoder.decoders.network.find_urls", "multidecoder.decoders.network.normalize_percent_encoding", "multidecoder.decoders.network.is_url"]
_add("url_pct_escape", Tmpl(b"http://example.com/%", (2, "hex"), b"z"), lambda d: check_nodes(find_urls, d, "find_urls"), funcs=FU, timeout=900)
_add("url_scheme_free", Tmpl((1, "alpha"), b"ttp", (1, "alpha"), b"://example.com/"), lambda d: check_nodes(find_urls, d, "find_urls"), funcs=FU, timeout=900)
CLASSES["quoteish"] = "({x} == 39 or {x} == 40 or {x} == 34 or {x} == 32)"
_add("url_quote_context", Tmpl((1, "quoteish"), b"http://", 1, b"@example.com/a", 1), lambda d: check_nodes(find_urls, d, "find_urls"), funcs=FU, timeout=900)
_add("url_host_dot_tld", Tmpl(b"http://", (1, "ldhdot"), b"com/a"), lambda d: check_nodes(find_urls, d, "find_urls"), funcs=FU, timeout=900)
_add("url_context_truncation", Tmpl(1, b"http://example.com/a", 1, b"b"), lambda d: check_nodes(find_urls, d, "find_urls"), funcs=FU,
     tier="thorough", timeout=3000)
_add("url_host_free2", Tmpl(b"http://", 2, b"example.com"), lambda d: check_nodes(find_urls, d, "find_urls"), funcs=FU, tier="thorough", timeout=3000)
