"""C01 / C03 (decoder part) -- every shipped decoder is total and honours the hit contract K
on (i) free blocks and (ii) skeleton inputs that steer into its conversion code (layer C).

The obligation list is built from the live registry: a decoder of the current tree that
has no template here is reported by the `coverage_of_registry` obligation."""
import sys

sys.path.insert(0, "/verif")
from vlib import prelude  # noqa: F401
from vlib import hx
from vlib.hx import Ob
from vlib.tmpl import Tmpl

from decoders_common import k_contract, mk_template_ob, shipped_decoders

DEC = shipped_decoders()

B64Q = b"QUJDREVGR0hJSktMTU5PUFFS"  # 24 base64 characters ("ABCDEFGHIJKLMNOPQR")

# decoder -> list of (tag, template, tier, timeout)
T = {
    "base64.find_atob": [("q", Tmpl(b"atob('Q", 3, b"')"), "both", 300), ("q4", Tmpl(b"atob('QUJD", 4, b"')"), "thorough", 1500),
                         ("free", Tmpl(b"atob(", 4), "both", 300)],
    "base64.find_base64": [("blob", Tmpl(B64Q, 3), "both", 300), ("blob5", Tmpl(B64Q[:20], 5), "thorough", 1500),
                           ("nl", Tmpl(B64Q[:8], 2, B64Q[8:16], 1, B64Q[16:]), "both", 300)],
    "base64.find_Base64Decode": [("q", Tmpl(b"Base64Decode('Q", 3, b"')"), "both", 300)],
    "base64.find_FromBase64String": [("q", Tmpl(b"FromBase64String('Q", 3, b"')"), "both", 300),
                                     ("xor", Tmpl(b"FromBase64String('QUJD') -bxor ", 3), "both", 300)],
    "chr.find_chr": [("n", Tmpl(b"chr(", 4, b")"), "both", 300), ("surr", Tmpl(b"Chr(55", (3, "digit"), b")"), "both", 300), ("w", Tmpl(b"ChrW(", 5, b")"), "thorough", 1500)],
    "codec.find_utf16": [("pairs", Tmpl(b"a\0b\0c\0d\0e\0", 4, b"h\0"), "both", 300), ("free", Tmpl(b"a\0b\0c\0d\0e\0f\0", 3), "both", 300)],
    "concat.find_concat": [("mid", Tmpl(b"'a'", 3, b"'b'"), "both", 300), ("lit", Tmpl(b"'", 2, b"'+\"", 2, b"\""), "both", 300)],
    "filename.find_executable_name": [("n", Tmpl(b" ", 3, b".exe", 1), "both", 300)],
    "filename.find_library": [("n", Tmpl(b" ", 3, b".dll", 1), "both", 300)],
    "hex.find_hex": [("tail", Tmpl(b"414243444546474849", 3), "both", 300), ("mid", Tmpl(b"4142434445", 2, b"4647484950"), "both", 300)],
    "hex.find_FromHexString": [("q", Tmpl(b"FromHexString('414243444546474849", 2, b"')"), "both", 300),
                               ("xor", Tmpl(b"FromHexString('41424344454647484950') -bxor", 4), "both", 300)],
    "javascript.find_unescape": [("q", Tmpl(b"unescape('", 4, b"')"), "both", 300)],
    "network.find_domains": [("lbl", Tmpl(b" ex", 3, b"le.com "), "both", 300), ("edge", Tmpl(1, b"example.com", 2), "both", 300)],
    "network.find_emails": [("lp", Tmpl(b" a", 3, b"@example.com "), "both", 300)],
    "network.find_ips": [("oct", Tmpl(b" 1", 1, b".2.3.4 "), "both", 300), ("edge", Tmpl(1, b"10.2.3.4", 1), "both", 300)],
    "network.find_urls": [("path", Tmpl(b"http://a.example.com/", 2), "both", 300), ("host", Tmpl(b"http://", 1, b"example.com"), "both", 300), ("host2", Tmpl(b"http://", 2, b"example.com"), "thorough", 1500),
                          ("ctx", Tmpl(1, b"http://example.com/a", 1), "thorough", 1500), ("ctx2", Tmpl(1, b"http://example.com/a", 1, b"b"), "thorough", 1500), ("pct", Tmpl(b"http://example.com/%", 2), "both", 300),
                          # host bytes that only appear after the two percent-decoding steps ('%5%42' -> '%5B' -> '[')
                          ("hostpct_nested", Tmpl(b"http://%5%4", 1, b"x.example.com/"), "both", 300),
                          ("hostpct_double", Tmpl(b"http://%%3", 1, b"Bexample.com/"), "both", 300),
                          ("hostpct", Tmpl(b"http://%", 2, b"example.com/"), "thorough", 2400)],
    "path.find_path": [("seg", Tmpl(b"/usr/", 3, b"/file"), "both", 300)],
    "path.find_windows_path": [("seg", Tmpl(b"c:\\temp\\", 2, b"o\\file.txt"), "both", 300), ("unc", Tmpl(b"\\\\ho", 1, b"\\share\\file.txt"), "both", 300), ("unc2", Tmpl(b"\\\\ho", 2, b"\\share\\file.txt"), "thorough", 1500),
                               ("dots", Tmpl(b"c:\\aaa\\", 2, b"\\bbb\\file.exe"), "both", 300)],
    "pe_file.find_pe_files": [("mz", Tmpl(b"MZ", 3), "both", 300),
                              # 'MZ' + 56..62 further bytes: the window around the e_lfanew field (offset 0x3C, 4 bytes)
                              ("hdr59", Tmpl(1, b"MZ" + b"\0" * 56, 3), "both", 300), ("hdr61", Tmpl(b"MZ" + b"\0" * 58, 3), "both", 300),
                              ("hdr62", Tmpl(b"MZ" + b"\0" * 58, 1, b"\0\0\0"), "both", 300), ("hdr64", Tmpl(b"MZ" + b"\0" * 58, 1, b"\0\0\0PE\0\0"), "both", 300)],
    "powershell.find_powershell_bytes": [("free", Tmpl(b"0x41,", 3), "both", 300)],
    "replace.find_replace": [("a", Tmpl(b"'a", 2, b"'.replace('", 1, b"','", 1, b"')"), "both", 300)],
    "replace.find_powershell_replace": [("a", Tmpl(b"'a", 2, b"' -replace '", 1, b"','", 1, b"'"), "both", 300)],
    "replace.find_vba_replace": [("a", Tmpl(b"Replace(\"a", 2, b"\",\"", 1, b"\",\"", 1, b"\")"), "both", 300)],
    "replace.find_js_regex_replace": [("a", Tmpl(b"'a", 2, b"'.replace(/", 1, b"/g,'", 1, b"')"), "both", 300)],
    "reverse.find_reverse": [("q", Tmpl(b"reverse('", 3, b"')"), "both", 300)],
    "shell.find_cmd_strings": [("free", Tmpl(b"cmd ", 3), "both", 300), ("paren", Tmpl(b"(cmd /c a", 2, b")", 1), "both", 300),
                               ("free4", Tmpl(b"cmd", 4), "thorough", 1500)],
    "shell.find_powershell_strings": [("free", Tmpl(b"powershell ", 3), "both", 300), ("enc", Tmpl(b"powershell -e", 2, b"QQBCAA=="), "both", 300),
                                      ("sep", Tmpl(b"powershell/e", 3, b"AAAA"), "both", 300), ("q", Tmpl(b"\"powershell ", 2, b"\"", 1), "both", 300),
                                      ("noctx", Tmpl(b"aaaaaaa", 1, b"pwsh", 2), "both", 300)],
    "vba.find_createobject": [("free", Tmpl(b"CreateObject(", 4), "both", 300)],
    "vba.find_strreverse": [("q", Tmpl(b"StrReverse(\"", 3, b"\")"), "both", 300)],
    "xml.find_xml_hex": [("ref", Tmpl(b"&#65;&#x41;&#", 3, b";&#66;&#67;"), "both", 300)],
}


def _mk(decname, tag, tmpl, tier, timeout):
    dec = DEC[decname]

    def body_of_data(data):
        ok, hits = k_contract(dec, data, decname)
        if not ok:
            return False, True
        return True, len(hits) >= 1

    name = f"K_{decname.replace('.', '_')}_{tag}"
    # skeletons on which no hit can occur are pure totality checks: no reachability twin
    no_hit = decname.startswith("pe_file") or decname.startswith("powershell.") or tag in ("free",)
    return mk_template_ob(globals(), name, tmpl, body_of_data, tier=tier, timeout=timeout,
                          functions=["multidecoder.decoders." + decname],
                          bound=f"hit contract K of {decname};", reach=not no_hit)


OBLIGATIONS = []
for _dn, _lst in T.items():
    if _dn not in DEC:
        continue  # decoder removed from the tree: C18 reports that
    for _tag, _tm, _tier, _to in _lst:
        OBLIGATIONS.append(_mk(_dn, _tag, _tm, _tier, _to))


def kf_ps_enc_child_span():
    """witness of known finding C03-ps-enc-child-span"""
    dec = DEC["shell.find_powershell_strings"]
    ok, _ = k_contract(dec, b"powershell/e^\t'AAAA")
    return ok


def kf_ps_nocontext_end():
    """witness of known finding C03-ps-nocontext-end"""
    dec = DEC["shell.find_powershell_strings"]
    ok, _ = k_contract(dec, b"aaaaaaa;pwsh x")
    return ok


def coverage_of_registry(dummy):
    """Concrete side condition: every @decoder function of the current tree has a template."""
    missing = [d for d in DEC if d not in T]
    if missing:
        return hx.fail("decoders of the current tree without a totality template", missing=missing), True
    return True, True


OBLIGATIONS.append(Ob("coverage_of_registry", coverage_of_registry, [("dummy", "int:0:0")], tier="both", timeout=60,
                      layer="C", functions=["multidecoder.registry.get_analyzers"], bound="concrete check", reach=False))
