"""C06 -- the scan engine conforms to the interval-nesting reference, for any registry
satisfying the hit contract, up to N hits per text (layer A)."""
import itertools
import sys

sys.path.insert(0, "/verif")
from vlib import prelude  # noqa: F401
from vlib import hx
from vlib.hx import Ob
from vlib.ref.engine import RNode, ref_scan
from vlib.synth import dump, ref_hits_of, same_tree

from engine_common import build, names_of, params, pre, run_engine, tokens

FUNCS = ["multidecoder.multidecoder.Multidecoder.scan_node", "multidecoder.node.Node.shift",
         "multidecoder.node.Node.original", "multidecoder.node.Node.__init__"]


def conform(pattern, depth, names, values):
    cfg, root_value = build(pattern, names, values)
    md, root, out = run_engine(cfg, root_value, depth)
    cfg2, root_value2 = build(pattern, names, values)
    from vlib.synth import TY

    rroot = RNode(TY(0), root_value2, "", 0, len(root_value2))
    ref_scan(rroot, depth, ref_hits_of(cfg2))
    args = dict(zip(names, values))
    if out is not root:
        return hx.fail("scan_node did not return the node it was given", pattern=pattern, depth=depth, args=args), True
    ok, where = same_tree(root, rroot)
    if not ok:
        return hx.fail("engine tree differs from the interval-nesting model: " + where, pattern=pattern, depth=depth,
                       args=args, engine="\n" + dump(root), model="\n" + dump(rroot)), True
    return True, len(root.children) >= min(2, len(tokens(pattern)))


def order_splits(n):
    """a covering family of preconditions: one per weak ordering chain a_p0 <= a_p1 <= ... of the hit starts (ties fall
    into several members, which is harmless for a covering split)"""
    import itertools

    return [" and ".join(f"a{p[i]} <= a{p[i + 1]}" for i in range(n - 1)) for p in itertools.permutations(range(n))]


def _mk(pattern, depth, tier, timeout, types=True, splits=()):
    ps = params(pattern, types=types)
    names = names_of(ps)

    def body(*values):
        return conform(pattern, depth, names, values)

    name = f"conform_{pattern}_k{depth}" + ("" if types else "_notypes") + ("_split" if splits else "")
    body.__name__ = name
    globals()[name] = body
    return Ob(name, body, ps, tier=tier, timeout=timeout, layer="A", functions=FUNCS, pre=pre(pattern),
              bound=f"root hits of kinds {pattern} (see harness/engine_common.py), free spans over a text of free "
                    f"length <= 24, free sub-hit spans, " + ("free type codes, " if types else "all types equal, ")
                    + f"depth limit {depth}",
              path_timeout=60, splits=list(splits))


OBLIGATIONS = []
from engine_gen import N3_HEAVY, N4, QUICK_PATTERNS  # noqa: E402

for pat in QUICK_PATTERNS:
    OBLIGATIONS.append(_mk(pat, 3, "both", 400))
for pat in N3_HEAVY:
    OBLIGATIONS.append(_mk(pat, 3, "thorough", 900))
for pat in N4:
    OBLIGATIONS.append(_mk(pat, 3, "thorough", 1200))
for pat in ("PDp", "DdP", "PPP", "DpDp", "DpDd"):
    OBLIGATIONS.append(_mk(pat, 2, "both", 400))
    OBLIGATIONS.append(_mk(pat, 1, "both", 400))

# N = 4 with the space split by the order of the hit starts (24 processes per pattern); types fixed to keep each part small
for pat in ("PPPP", "PPDdP", "PDdPP", "PPPDd"):
    OBLIGATIONS.append(_mk(pat, 3, "thorough", 1200, types=False, splits=order_splits(4)))
