"""C07 -- the depth limit bounds recursion and only ever truncates the tree (layer A)."""
import sys

sys.path.insert(0, "/verif")
from vlib import prelude  # noqa: F401
from vlib import hx
from vlib.av import AV
from vlib.hx import Ob
from vlib.sym import band
from vlib.synth import Config, HitSpec, TY, decoders, dump

import engine_oracles as EO
from engine_common import MAXL, build, names_of, params, pre, run_engine, tokens
from engine_gen import FUNCS

from multidecoder.multidecoder import Multidecoder
from multidecoder.node import Node


def distance(tid: int) -> int:
    """decoding steps from the scanned input to text `tid` in engine_common's numbering"""
    if tid == 0:
        return 0
    if 10 <= tid < 30:
        return 1
    return 2  # 30+: decoder-supplied child values, 40+: texts decoded from a decoded text


def _mk_bound(pattern, tier, timeout, via_scan=False):
    ps = params(pattern) + [("k", "int:-2:5")]
    names = names_of(ps)

    def body(*values):
        k = values[-1]
        cfg, root_value = build(pattern, names, values)
        if via_scan:
            # through the public entry point Multidecoder.scan(data, depth_limit)
            md = Multidecoder(decoders=decoders(cfg, Node))
            root = out = md.scan(root_value, k)
        else:
            md, root, out = run_engine(cfg, root_value, k)
        args = dict(zip(names, values))
        if out is not root:
            return hx.fail("different object returned", args=args), True
        if k <= 0:
            if cfg.searched_tids or root.children:
                return hx.fail("depth limit <= 0 but decoders were applied / children attached", args=args, calls=cfg.searched_tids), True
            return True, False
        for tid in cfg.searched_tids:
            if not (distance(tid) < k):
                return hx.fail("decoder applied to a value >= k decoding steps away", k=k, tid=tid, args=args), True
        return True, len(set(cfg.searched_tids)) >= 2

    name = f"depth_bound_{pattern}" + ("_via_scan" if via_scan else "")
    body.__name__ = name
    globals()[name] = body
    return Ob(name, body, ps, tier=tier, timeout=timeout, layer="A", functions=FUNCS, pre=pre(pattern),
              bound=f"root hits {pattern}, free spans, FREE depth limit k in -2..5; oracle: decoders only called on texts "
                    f"fewer than k decoding steps from the input; nothing at all for k <= 0")


def _mk_mono(pattern, tier, timeout):
    ps = params(pattern) + [("k", "int:-1:4")]
    names = names_of(ps)

    def body(*values):
        k = values[-1]
        cfg1, rv1 = build(pattern, names, values)
        _, r1, _ = run_engine(cfg1, rv1, k)
        cfg2, rv2 = build(pattern, names, values)
        _, r2, _ = run_engine(cfg2, rv2, k + 1)
        res = EO.is_sublist_tree(r1, r2)
        if res is False or not res:
            return hx.fail("tree for k is not an order-preserving sub-tree of the tree for k+1", k=k,
                           args=dict(zip(names, values)), tree_k="\n" + dump(r1), tree_k1="\n" + dump(r2)), True
        return True, len(EO.walk(r2)) > len(EO.walk(r1))

    name = f"depth_mono_{pattern}"
    body.__name__ = name
    globals()[name] = body
    return Ob(name, body, ps, tier=tier, timeout=timeout, layer="A", functions=FUNCS, pre=pre(pattern),
              bound=f"root hits {pattern}, free spans, free k in -1..4; oracle: every child list of scan(k) is an "
                    f"order-preserving sub-list of scan(k+1) with identical node contents")


CHAIN_LEVELS = 4


def chain_always_decodable(k, L0, a0, b0, L1, a1, b1, L2, a2, b2, L3, a3, b3):
    """A registry whose output can always be decoded again: searching text #T yields one decoded
    hit [aT,bT) whose value is the fresh text #T+1 (for T beyond the parameters: [0,1) of a
    1-byte text).  The scan must terminate, apply the decoder exactly max(k,0) times and build
    a chain of exactly max(k,0) nodes."""
    import vlib.av as _av

    _av.LEN_CALLS[0] = 0
    lens = [L0, L1, L2, L3]
    spans = [(a0, b0), (a1, b1), (a2, b2), (a3, b3)]
    calls = []

    def search(value):
        T = value.tid
        calls.append(T)
        a, b = spans[T] if T < len(spans) else (0, 1)
        nlen = lens[T + 1] if T + 1 < len(lens) else 1
        return [Node("", AV(T + 1, 0, nlen, 0), "dec", a, b)]

    md = Multidecoder(decoders=[search])
    root = Node("", AV(0, 0, L0, 0), "", 0, L0)
    out = md.scan_node(root, k)
    want = k if k > 0 else 0
    if len(calls) != want:
        return hx.fail("decoder applied a wrong number of times", k=k, calls=calls), True
    depth = 0
    n = root
    while n.children:
        if len(n.children) != 1:
            return hx.fail("chain node with several children", k=k), True
        n = n.children[0]
        depth += 1
    if depth != want:
        return hx.fail("chain has wrong depth", k=k, depth=depth), True
    return True, want >= 3


_CHAIN_PARAMS = [("k", "int:-3:12")]
for _i in range(CHAIN_LEVELS):
    _CHAIN_PARAMS += [(f"L{_i}", f"int:1:{MAXL}"), (f"a{_i}", f"int:0:{MAXL}"), (f"b{_i}", f"int:0:{MAXL}")]
_CHAIN_PRE = " and ".join(f"a{i} < b{i} <= L{i}" for i in range(CHAIN_LEVELS))

OBLIGATIONS = [
    Ob("chain_always_decodable", chain_always_decodable, _CHAIN_PARAMS, tier="both", timeout=300, layer="A",
       functions=FUNCS, pre=_CHAIN_PRE,
       bound="always-decodable registry, FREE depth limit -3..12, free spans/lengths for the first 4 levels"),
]
for pat in ("Dd", "PDp", "DdP", "C", "DpDd"):
    OBLIGATIONS.append(_mk_bound(pat, "both", 300))
for pat in ("PDdP", "CDd", "PDpd"):
    OBLIGATIONS.append(_mk_bound(pat, "thorough", 900))
for pat in ("Dd", "PDp"):
    OBLIGATIONS.append(_mk_bound(pat, "both", 300, via_scan=True))
for pat in ("Dd", "PDp", "DdP", "C"):
    OBLIGATIONS.append(_mk_mono(pat, "both", 300))
for pat in ("PDdP", "DpDd", "CDd", "PDpd"):
    OBLIGATIONS.append(_mk_mono(pat, "thorough", 900))
