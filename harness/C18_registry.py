"""C18 -- the registry contains every shipped decoder and honours configuration.
C09 (order part) reuses the file-system stub defined here."""
import json
import os
import sys

sys.path.insert(0, "/verif")
from vlib import prelude  # noqa: F401
from vlib import hx
from vlib.hx import Ob, bytes_params

import multidecoder.registry as REG
from multidecoder.registry import build_registry, get_analyzers, get_keywords

from decoders_common import shipped_decoders


class FakeFS:
    """environment stub for os.walk / open: a keyword directory held in memory.
    layout: {relative dir: {file name: bytes}}; walk order as given (arbitrary, like a real FS)"""

    def __init__(self, root, layout, order=None):
        self.root = root
        self.layout = layout
        self.order = order

    def walk(self, directory):
        dirs = list(self.layout.keys())
        if self.order:
            dirs = self.order(dirs)
        for d in dirs:
            files = list(self.layout[d].keys())
            if self.order:
                files = self.order(files)
            sub = [x for x in self.layout if x != d and os.path.dirname(x) == d]
            yield (os.path.join(directory, d) if d else directory, sub, files)

    def open(self, path, mode="rb"):
        import io

        rel = os.path.relpath(path, self.root)
        d, f = os.path.split(rel)
        return io.BytesIO(self.layout[d][f])


def with_fs(fs, fn):
    real_walk, had_open = REG.os.walk, "open" in REG.__dict__
    real_open = REG.__dict__.get("open")
    REG.os.walk = fs.walk
    REG.open = fs.open
    try:
        return fn()
    finally:
        REG.os.walk = real_walk
        if had_open:
            REG.open = real_open
        else:
            del REG.open


def ref_lines(content):
    """reference: the set of non-blank lines (LF, CRLF and CR terminated)"""
    out = []
    cur = []
    i = 0
    n = len(content)
    while i < n:
        c = content[i]
        if c == 10 or c == 13:
            out.append(bytes(cur))
            cur = []
            if c == 13 and i + 1 < n and content[i + 1] == 10:
                i += 1
        else:
            cur.append(c)
        i += 1
    if cur:
        out.append(bytes(cur))
    res = []
    for ln in out:
        if len(ln) > 0 and not any(ln == r for r in res):
            res.append(ln)
    return res


LINECH = "({x} == 10 or {x} == 13 or {x} == 97 or {x} == 98 or {x} == 32)"


def keywords_from_directory4(c0, c1, c2, c3, e0):
    return _kfd(bytes([c0, c1, c2, c3]), bytes([e0]))


def keywords_from_directory(c0, c1, c2, e0):
    return _kfd(bytes([c0, c1, c2]), bytes([e0]))


def _kfd(f1, f2):
    """two files (one in a sub-directory) with free contents over {LF, CR, 'a', 'b', ' '}: one searcher per non-empty
    file, typed by the file's name, holding exactly the non-blank lines; empty files yield nothing."""
    fs = FakeFS("/kw", {"": {"api.one": f1}, "sub": {"two": f2}})
    try:
        reg = with_fs(fs, lambda: get_keywords("/kw"))
    except Exception as e:  # noqa: BLE001
        return hx.fail(f"get_keywords raised {type(e).__name__}: {e}", f1=f1, f2=f2), True
    want = [(name, ref_lines(content)) for name, content in (("api.one", f1), ("two", f2))]
    want = [(n, ls) for n, ls in want if ls]
    if len(reg) != len(want):
        return hx.fail("wrong number of keyword searchers", f1=f1, f2=f2, got=len(reg), want=len(want)), True
    for searcher, (name, lines) in zip(reg, want):
        label, kws = searcher.args
        if label != name:
            return hx.fail("searcher not typed by the file name", label=label, name=name), True
        kws = list(kws)
        if len(kws) != len(lines) or not all(any(k == ln for k in kws) for ln in lines):
            return hx.fail("keyword set is not the set of non-blank lines", file=name, got=kws, want=lines), True
        # behaviour: the searcher finds its keyword in data
        hits = searcher(b" " + lines[0] + b" ")
        if not any(h.type == name and h.value == lines[0] for h in hits):
            return hx.fail("searcher does not find its own keyword", file=name, kw=lines[0]), True
    return True, len(want) == 2


OBLIGATIONS = [
    Ob("keywords_from_directory4", keywords_from_directory4, bytes_params("c", 4) + bytes_params("e", 1),
       pre=" and ".join(LINECH.format(x=f"c{i}") for i in range(4)) + " and " + LINECH.format(x="e0"),
       tier="thorough", timeout=1800, layer="B", functions=["multidecoder.registry.get_keywords", "multidecoder.keyword.find_keywords"],
       stubs=["os.walk and open inside multidecoder.registry serve an in-memory directory"],
       bound="file contents of 4 and 1 bytes over {LF, CR, 'a', 'b', ' '}"),
    Ob("keywords_from_directory", keywords_from_directory, bytes_params("c", 3) + bytes_params("e", 1),
       pre=" and ".join(LINECH.format(x=f"c{i}") for i in range(3)) + " and " + LINECH.format(x="e0"),
       tier="both", timeout=400, layer="B", functions=["multidecoder.registry.get_keywords", "multidecoder.keyword.find_keywords"],
       stubs=["os.walk and open inside multidecoder.registry serve an in-memory directory (one file in the root, one in a sub-directory)"],
       bound="file contents of 3 and 1 bytes over {LF, CR, 'a', 'b', ' '}: blank lines, CR/LF/CRLF, duplicates, empty files arise by themselves"),
]

ALL_DECS = shipped_decoders()
MODULES = sorted({name.split(".")[0] for name in ALL_DECS})


def include_exclude(use_include, i0, i1, x0, x1, m0):
    """membership of two decoder modules (one by free index, one fixed) in include / exclude is free:
    selected == (no include list or included) and not excluded, compared on function identity.
    All arguments are pinned by case split and get_analyzers runs untraced (its importlib / inspect
    machinery is ~4 s per path under tracing): a solver-driven enumeration of the configuration space."""
    m0 = pin(m0, 0, len(MODULES) - 1)
    mods = [MODULES[m0], "base64" if MODULES[m0] != "base64" else "hex"]
    include = [m for m, b in zip(mods, (i0, i1)) if b]
    exclude = [m for m, b in zip(mods, (x0, x1)) if b]
    inc_arg = include if use_include else None
    if hx.SYMBOLIC:
        from crosshair.tracers import NoTracing

        with NoTracing():
            got = get_analyzers(include=inc_arg, exclude=exclude)
    else:
        got = get_analyzers(include=inc_arg, exclude=exclude)
    want = []
    for qn, fn in ALL_DECS.items():
        mod = qn.split(".")[0]
        selected = (not inc_arg or mod in inc_arg) and not (exclude and mod in exclude)
        if selected:
            want.append(fn)
    if len(got) != len(want) or any(not any(g is w for w in want) for g in got):
        return hx.fail("include/exclude selection wrong", include=inc_arg, exclude=exclude,
                       got=sorted(f.__name__ for f in got), want=sorted(f.__name__ for f in want)), True
    return True, bool(include) or bool(exclude)


def pin(x, lo, hi):
    for v in range(lo, hi + 1):
        if x == v:
            return v
    raise AssertionError("out of range")


OBLIGATIONS.append(Ob("include_exclude", include_exclude,
                      [("use_include", "bool")] + [(f"i{k}", "bool") for k in range(2)] + [(f"x{k}", "bool") for k in range(2)]
                      + [("m0", f"int:0:{len(MODULES) - 1}")],
                      tier="both", timeout=400, layer="B", functions=["multidecoder.registry.get_analyzers"],
                      bound=f"one module by free index into the {len(MODULES)} decoder modules plus one fixed module, free membership of both in include and exclude, include given or None (all 512 cases)"))


def registry_complete(dummy):
    """concrete side conditions: the default registry holds every @decoder function an AST walk of decoders/*.py finds,
    every decoder pinned from the baseline commit, and one keyword searcher per non-empty shipped keyword file;
    a custom keyword directory changes the keyword part only."""
    import ast
    import glob

    reg = build_registry()
    names = {getattr(f, "__name__", None) for f in reg}
    src = os.path.join(prelude.REPO_SRC, "multidecoder", "decoders")
    marked = []
    for path in glob.glob(os.path.join(src, "*.py")):
        tree = ast.parse(open(path).read())
        for node in tree.body:
            if isinstance(node, ast.FunctionDef) and any(isinstance(d, ast.Name) and d.id == "decoder" for d in node.decorator_list):
                marked.append(node.name)
    missing = [m for m in marked if m not in names]
    if missing:
        return hx.fail("@decoder functions missing from the default registry", missing=missing), True
    pinned = json.load(open(os.path.join(os.path.dirname(os.path.dirname(os.path.abspath(__file__))), "data", "shipped_decoders.json")))
    gone = [p for p in pinned["decoders"] if p.split(".")[-1] not in names]
    if gone:
        return hx.fail("decoders shipped at the baseline commit are no longer registered", gone=gone), True
    kwdir = os.path.join(prelude.REPO_SRC, "multidecoder", "keywords")
    nonempty = 0
    for sub, _, files in os.walk(kwdir):
        for fn in files:
            content = open(os.path.join(sub, fn), "rb").read()
            if any(ln for ln in content.splitlines()):
                nonempty += 1
    searchers = [f for f in reg if hasattr(f, "args")]
    if len(searchers) != nonempty or len(searchers) < pinned["keyword_files"]:
        return hx.fail("keyword searchers != non-empty keyword files", searchers=len(searchers), files=nonempty,
                       baseline=pinned["keyword_files"]), True
    # configuration must not leak from one build to the next (history of builds in one process)
    r1 = build_registry(include=["base64"])
    r2 = build_registry(include=["hex"])
    r3 = build_registry()
    names2 = {getattr(f, "__name__", None) for f in r2 if not hasattr(f, "args")}
    want2 = {fn.__name__ for qn, fn in ALL_DECS.items() if qn.startswith("hex.")}
    if names2 != want2 or len(r3) != len(reg) or len([f for f in r1 if hasattr(f, "args")]) != nonempty:
        return hx.fail("a registry build depends on builds made before it", second=sorted(n for n in names2 if n), want=sorted(want2),
                       sizes=(len(r1), len(r2), len(r3), len(reg))), True
    fs = FakeFS("/kw", {"": {"only": b"zz\n"}})
    custom = with_fs(fs, lambda: build_registry("/kw"))
    cust_fns = [f for f in custom if not hasattr(f, "args")]
    dflt_fns = [f for f in reg if not hasattr(f, "args")]
    if len(custom) - len(cust_fns) != 1 or len(cust_fns) != len(dflt_fns) or any(a is not b for a, b in zip(cust_fns, dflt_fns)):
        return hx.fail("a custom keyword directory changed more than the keyword part"), True
    return True, True


OBLIGATIONS.append(Ob("registry_complete", registry_complete, [("dummy", "int:0:0")], tier="both", timeout=300, layer="X",
                      functions=["multidecoder.registry.build_registry"], reach=False,
                      bound="concrete side condition (no symbolic input): AST walk of decoders/*.py, list pinned from the baseline commit, shipped keyword files"))


# ---- a custom keyword directory REPLACES the shipped keywords, whatever it contains ----------------------------
def custom_directory_replaces(c0, e0):
    """build_registry(<dir>) holds exactly one searcher per non-blank file of <dir> (typed by the file name) besides
    the decoders -- in particular none at all, and no shipped keyword list, when every file is empty or blank"""
    f1, f2 = bytes([c0]) + b"\n", bytes([e0])
    fs = FakeFS("/kw", {"": {"api.one": f1}, "sub": {"two": f2}})
    try:
        reg = with_fs(fs, lambda: build_registry("/kw"))
    except Exception as e:  # noqa: BLE001
        return hx.fail(f"build_registry raised {type(e).__name__}: {e}", f1=f1, f2=f2), True
    want = [name for name, content in (("api.one", f1), ("two", f2)) if ref_lines(content)]
    got = [f.args[0] for f in reg if hasattr(f, "args")]
    if got != want:
        return hx.fail("keyword searchers of a custom directory are not exactly its non-blank files", f1=f1, f2=f2, got=got[:6],
                       n_got=len(got), want=want), True
    if len(reg) - len(got) != len(ALL_DECS):
        return hx.fail("decoder part of the registry changed with the keyword directory", n=len(reg) - len(got)), True
    return True, len(want) == 0


OBLIGATIONS.append(Ob("custom_directory_replaces_shipped_keywords", custom_directory_replaces, bytes_params("c", 1) + bytes_params("e", 1),
                      pre=" and ".join(LINECH.format(x=v) for v in ("c0", "e0")), tier="both", timeout=400, layer="B",
                      functions=["multidecoder.registry.build_registry", "multidecoder.registry.get_keywords"],
                      stubs=["os.walk and open inside multidecoder.registry serve an in-memory directory"],
                      bound="two files of 1 (+LF) and 1 bytes over {LF, CR, 'a', 'b', ' '} (all-blank directories included)"))
