"""C05 -- sibling results are laminar; raw hits inside a decoded region are suppressed (layer A)."""
import sys

sys.path.insert(0, "/verif")
from vlib import prelude  # noqa: F401

import engine_oracles as EO
from engine_gen import N3_HEAVY, N4, QUICK_PATTERNS, make


def oracle(cfg, root, out, root_value, depth, rebuild):
    return EO.laminar(cfg, root)


OBLIGATIONS = make(globals(), "laminar", oracle, QUICK_PATTERNS, N3_HEAVY + N4,
                   bound_extra="Oracle: in every engine-built child list starts non-decreasing and ends strictly increasing; a hit inside an earlier decoded hit is absent, inside an earlier undecoded hit is its descendant.")
