"""C09 -- results are a function of input, depth and configuration only.

What can be made symbolic is *order* and *history* (DESIGN 3/C09): the iteration order of keyword sets and
the enumeration order of the keyword directory are environment choices modelled by nondeterministic stubs;
scan histories on one scanner are sequences of scans of free inputs.  OS thread interleavings and real
separate processes are outside this technique (stated in the manifest)."""
import sys

sys.path.insert(0, "/verif")
from vlib import prelude  # noqa: F401
from vlib import hx
from vlib.hx import Ob, bytes_params

import multidecoder.registry as REG
from multidecoder.decoders.concat import find_concat
from multidecoder.decoders.reverse import find_reverse
from multidecoder.decoders.xml import find_xml_hex
from multidecoder.keyword import find_keywords
from multidecoder.multidecoder import Multidecoder
from multidecoder.node import Node
from functools import partial

from C18_registry import FakeFS, with_fs


def make_permset(flip):
    class PermSet(set):
        """a set whose iteration order is an arbitrary (here: one of two) permutation -- 'sets are unordered'"""

        def __iter__(self):
            items = sorted(set.__iter__(self))
            return iter(items[::-1] if flip else items)

        # set algebra yields sets that are just as unordered
        def intersection(self, *o):
            return PermSet(set.intersection(self, *o))

        def union(self, *o):
            return PermSet(set.union(self, *o))

        def difference(self, *o):
            return PermSet(set.difference(self, *o))

        __and__ = lambda self, o: PermSet(set.__and__(self, o))  # noqa: E731
        __or__ = lambda self, o: PermSet(set.__or__(self, o))  # noqa: E731
        __sub__ = lambda self, o: PermSet(set.__sub__(self, o))  # noqa: E731

    return PermSet


def build(files, flip_files, flip_sets):
    order = (lambda xs: list(xs)[::-1]) if flip_files else None
    fs = FakeFS("/kw", {"": files}, order=order)
    real_set = REG.__dict__.get("set")
    REG.set = make_permset(flip_sets)
    try:
        return with_fs(fs, lambda: REG.get_keywords("/kw"))
    finally:
        if real_set is None:
            del REG.set
        else:
            REG.set = real_set


def tree_sig(n):
    return [(c.type, bytes(c.value), c.obfuscation, c.start, c.end, tree_sig(c)) for c in n.children]


def same_trees(a, b):
    if len(a.children) != len(b.children):
        return False
    acc = True
    for x, y in zip(a.children, b.children):
        if x.type != y.type or x.obfuscation != y.obfuscation or len(x.value) != len(y.value):
            return False
        acc = acc & (x.start == y.start) & (x.end == y.end)
        for p, q in zip(x.value, y.value):
            acc = acc & (p == q)
        sub = same_trees(x, y)
        if sub is False:
            return False
        acc = acc & sub
    return acc


def order_independence(k0, k1, k2, d0, d1, d2, ff2, fs2):
    ff1 = fs1 = False  # w.l.o.g. the first build uses the baseline order, the second any order
    """two keyword files; file 'a' lists keywords k0 and k1, file 'b' lists k2 (1 free byte each: equal words in
    two files and case variants in one file arise by themselves); the registry is built twice under two
    independent choices of directory order and set iteration order; scanning the same 3 free bytes must give
    equal trees."""
    files = {"a": bytes([k0, 10, k1, 10]), "b": bytes([k2, 10])}
    data = bytes([d0, d1, d2])
    try:
        r1 = build(files, ff1, fs1)
        r2 = build(files, ff2, fs2)
        t1 = Multidecoder(decoders=r1).scan(data)
        t2 = Multidecoder(decoders=r2).scan(data)
    except Exception as e:  # noqa: BLE001
        return hx.fail(f"raised {type(e).__name__}: {e}", files=files, data=data), True
    if not same_trees(t1, t2):
        return hx.fail("the tree depends on directory enumeration order / set iteration order", files=files, data=data,
                       orders=((ff1, fs1), (ff2, fs2)), t1=t1, t2=t2), True
    return True, len(t1.children) >= 2


KW3 = "({x} == 97 or {x} == 65 or {x} == 98)"  # a A b
KW2 = "({x} == 97 or {x} == 98)"
DL = "({x} == 45 or {x} == 97)"  # - a
OBLIGATIONS = [
    Ob("order_independence", order_independence,
       bytes_params("k", 3) + bytes_params("d", 3) + [("ff2", "bool"), ("fs2", "bool")],
       pre=" and ".join([KW3.format(x="k0"), KW3.format(x="k1"), KW2.format(x="k2"), DL.format(x="d0"), KW3.format(x="d1"), DL.format(x="d2")]),
       splits=["ff2 == True and fs2 == False", "ff2 == False and fs2 == True", "ff2 == True and fs2 == True"],
       tier="both", timeout=900, layer="B",
       functions=["multidecoder.registry.get_keywords", "multidecoder.keyword.find_keywords", "multidecoder.multidecoder.Multidecoder.scan_node"],
       stubs=["os.walk / open: in-memory keyword directory enumerated in an arbitrary (forward or reverse) order",
              "the name `set` in multidecoder.registry: a set subclass iterating in an arbitrary (ascending or descending) order"],
       bound="2 keyword files with 2+1 one-byte keywords over {a A b}, data of 3 bytes over {- a A b}, baseline order vs. each of the 3 other order choices"),
]


def history(x0, x1, y0):
    y1 = 32
    """scan(x); scan(y); scan(x) on one scanner built from real decoders: the third tree equals the first and equals
    a fresh scanner's; decoders return fresh objects every time."""
    kw = partial(find_keywords, "kw", [b"a", b"'"])
    decs = [kw, find_concat, find_reverse]
    x = b"'a'+'" + bytes([x0]) + b"'" + bytes([x1])
    y = b"reverse('" + bytes([y0]) + b"')" + bytes([y1])
    md = Multidecoder(decoders=decs)
    try:
        t1 = md.scan(x)
        md.scan(y)
        t3 = md.scan(x)
        t4 = Multidecoder(decoders=decs).scan(x)
    except Exception as e:  # noqa: BLE001
        return hx.fail(f"raised {type(e).__name__}: {e}", x=x, y=y), True
    if not same_trees(t1, t3) or not same_trees(t3, t4):
        return hx.fail("a scan result depends on the history of the scanner", x=x, y=y, t1=t1, t3=t3, t4=t4), True
    ids1 = {id(n) for n in t1}
    if any(id(n) in ids1 for n in t3):
        return hx.fail("node objects shared between two scans", x=x), True
    return True, len(t1.children) >= 1


H6 = "({x} == 97 or {x} == 98 or {x} == 39 or {x} == 43 or {x} == 32 or {x} == 41)"
OBLIGATIONS.append(Ob("history_independence", history, bytes_params("x", 2) + bytes_params("y", 1), tier="both", timeout=900, layer="C",
                      pre="(x0 == 97 or x0 == 98 or x0 == 43 or x0 == 32) and " + H6.format(x="x1") + " and " + H6.format(x="y0"),
                      functions=["multidecoder.multidecoder.Multidecoder.scan", "multidecoder.decoders.concat.find_concat",
                                 "multidecoder.decoders.reverse.find_reverse", "multidecoder.keyword.find_keywords"],
                      bound="one scanner (keywords + concat + reverse); x = concat skeleton with 2 free bytes, y = reverse skeleton with 1 free byte, each over a 4-6 value alphabet of delimiter / quote / letter bytes"))


def snapshot(n):
    return [(c.type, list(c.value), c.obfuscation, c.start, c.end, snapshot(c)) for c in n.children]


def same_snap(a, b):
    if len(a) != len(b):
        return False
    acc = True
    for x, y in zip(a, b):
        if x[0] != y[0] or x[2] != y[2] or len(x[1]) != len(y[1]):
            return False
        acc = acc & (x[3] == y[3]) & (x[4] == y[4])
        for p, q in zip(x[1], y[1]):
            acc = acc & (p == q)
        sub = same_snap(x[5], y[5])
        if sub is False:
            return False
        acc = acc & sub
    return acc


def history_depth_urls(h0, k_shallow):
    """scan(x, k); scan(x, 10); scan(x, k) on scanners built from real decoders that return pre-assembled children
    (URL parts): the third result equals a snapshot of the first, and no node object is shared between scans."""
    from multidecoder.decoders.filename import find_executable_name
    from multidecoder.decoders.network import find_urls

    decs = [find_urls, find_executable_name]
    x = b"get http://example.com/files/set" + bytes([h0]) + b"p.exe now"
    try:
        t1 = Multidecoder(decoders=decs).scan(x, k_shallow)
        s1 = snapshot(t1)
        ids1 = {id(n) for n in t1}
        Multidecoder(decoders=decs).scan(x, 10)
        t3 = Multidecoder(decoders=decs).scan(x, k_shallow)
        s3 = snapshot(t3)
    except Exception as e:  # noqa: BLE001
        return hx.fail(f"raised {type(e).__name__}: {e}", x=x), True
    if not same_snap(s1, s3):
        return hx.fail("the result of a scan depends on scans made before it", x=x, k=k_shallow, first=s1, third=s3), True
    if any(id(n) in ids1 for n in t3):
        return hx.fail("node objects are shared between the results of two scans", x=x), True
    if not same_snap(s1, snapshot(t1)):
        return hx.fail("a later scan modified an earlier result", x=x), True
    return True, len(s1) >= 1


OBLIGATIONS.append(Ob("history_depth_urls", history_depth_urls, [("h0", "byte"), ("k_shallow", "int:1:3")], tier="both", timeout=900, layer="C",
                      pre="(97 <= h0 <= 122) or h0 == 47 or h0 == 46 or h0 == 37",
                      functions=["multidecoder.multidecoder.Multidecoder.scan", "multidecoder.decoders.network.find_urls",
                                 "multidecoder.decoders.network.parse_url"],
                      bound="URL skeleton with one free path byte, free shallow depth 1..3, deep scan in between"))


def order_independence_wide(k0, k1, k2, k3, d0, d1, d2, d3, ff2, fs2):
    """as order_independence with a third file and 4 data bytes"""
    files = {"a": bytes([k0, 10, k1, 10]), "b": bytes([k2, 10]), "c": bytes([k3, 10, k0, 10])}
    data = bytes([d0, d1, d2, d3])
    try:
        t1 = Multidecoder(decoders=build(files, False, False)).scan(data)
        t2 = Multidecoder(decoders=build(files, ff2, fs2)).scan(data)
    except Exception as e:  # noqa: BLE001
        return hx.fail(f"raised {type(e).__name__}: {e}", files=files, data=data), True
    if not same_trees(t1, t2):
        return hx.fail("the tree depends on directory enumeration order / set iteration order", files=files, data=data, t1=t1, t2=t2), True
    return True, len(t1.children) >= 2


OBLIGATIONS.append(Ob("order_independence_wide", order_independence_wide,
                      bytes_params("k", 4) + bytes_params("d", 4) + [("ff2", "bool"), ("fs2", "bool")],
                      pre=" and ".join([KW3.format(x=f"k{i}") for i in range(4)] + [DL.format(x="d0"), KW3.format(x="d1"), KW3.format(x="d2"), DL.format(x="d3")]),
                      splits=["ff2 == True and fs2 == False", "ff2 == False and fs2 == True", "ff2 == True and fs2 == True"],
                      tier="thorough", timeout=1500, layer="B",
                      functions=["multidecoder.registry.get_keywords", "multidecoder.keyword.find_keywords", "multidecoder.multidecoder.Multidecoder.scan_node"],
                      stubs=["os.walk / open and `set` as in order_independence"],
                      bound="3 keyword files, 4 one-byte keywords over {a A b} (one listed twice), data of 4 bytes"))


# ---- registry order under include / exclude filters ------------------------------------------------------------
import pkgutil

import multidecoder.decoders as _DEC

MODULES = [m.name for m in pkgutil.iter_modules(_DEC.__path__)]


def _analyzers(flip, include, exclude):
    real_set = REG.__dict__.get("set")
    REG.set = make_permset(flip)
    try:
        return [f.__module__ + "." + f.__qualname__ for f in REG.get_analyzers(include=include, exclude=exclude)]
    finally:
        if real_set is None:
            del REG.set
        else:
            REG.set = real_set


def analyzer_order(i0, i1, x0, fs2):
    """the decoder list built with an include filter of two modules (given in either order) and an exclude filter of
    one module is the same list under every iteration order of the sets the registry builds from the filters; hits
    on identical spans nest in registry order, so this order is part of the scan result"""
    inc = [MODULES[i1], MODULES[i0]]
    exc = [MODULES[x0]]
    a = _analyzers(False, inc, exc)
    b = _analyzers(fs2, inc, exc)
    if a != b:
        return hx.fail("decoder order depends on set iteration order", include=inc, exclude=exc, first=a, second=b), True
    return True, len(a) >= 2


_NM = len(MODULES)
OBLIGATIONS.append(Ob("analyzer_order_under_filters", analyzer_order,
                      [("i0", f"int:0:{_NM - 1}"), ("i1", f"int:0:{_NM - 1}"), ("x0", f"int:0:{_NM - 1}"), ("fs2", "bool")],
                      pre="i0 < i1 and (x0 == 0 or x0 == i0)", tier="both", timeout=900, layer="B",
                      functions=["multidecoder.registry.get_analyzers"],
                      stubs=["the name `set` in multidecoder.registry: a set subclass (closed under set algebra) iterating in an arbitrary (ascending or descending) order"],
                      bound=f"include = any 2 of the {_NM} shipped decoder modules, exclude = the first module or the first included one, both iteration orders"))
