"""C14 (layer D) -- XML reference runs: five or more references, each x+2 hex digits or decimal 0..255."""
import sys

sys.path.insert(0, "/verif")
from vlib import prelude  # noqa: F401
import z3
from regexlang_common import HEXD, LE255, inclusion

import multidecoder.decoders.xml as X

REF = z3.Concat(z3.Re("&#"), z3.Union(z3.Concat(z3.Union(z3.Re("x"), z3.Re("X")), z3.Loop(HEXD, 2, 2)), LE255), z3.Re(";"))
OBLIGATIONS = [inclusion("xml_run_of_5_refs", lambda: X.XML_ESCAPE_RE, 0, z3.Concat(z3.Loop(REF, 5, 5), z3.Star(REF)),
                         "XML_ESCAPE_RE: a run of at least five well-formed numeric character references")]
for _o in OBLIGATIONS:
    globals()[_o.name] = _o.fn
