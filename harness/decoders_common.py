"""Shared pieces of the layer-C (decoder) harnesses: the hit contract K, obligation
generation from input templates, the list of shipped decoders."""
import importlib
import inspect
import pkgutil
import sys

sys.path.insert(0, "/verif")
from vlib import prelude  # noqa: F401
from vlib import hx
from vlib.hx import Ob
from vlib.tmpl import Tmpl

import multidecoder.decoders as _D


def shipped_decoders():
    """{qualified name: function} for every @decoder function of the current tree"""
    out = {}
    for info in pkgutil.iter_modules(_D.__path__):
        mod = importlib.import_module("multidecoder.decoders." + info.name)
        for name, fn in inspect.getmembers(mod, inspect.isfunction):
            if hasattr(fn, "_decoder") and fn.__module__ == mod.__name__:
                out[f"{info.name}.{name}"] = fn
    return out


def node_tuple(n):
    return (n.type, n.value, n.obfuscation, n.start, n.end, [node_tuple(c) for c in n.children])


def tolerated_hit_span(dec, data, h) -> bool:
    """Known finding C03-ps-nocontext-end (pinned by tests/test_decoders/test_shell.py): a
    powershell string without enclosing quote / FOR-loop context gets end = len(data) - start."""
    return bool(
        hx.known("C03-ps-nocontext-end")
        and dec.__name__ == "find_powershell_strings"
        and h.type in ("shell.powershell", "shell.cmd")
        and h.start > 0
        and h.end == len(data) - h.start
    )


def tolerated_child_span(p, c) -> bool:
    """Known finding C03-ps-enc-child-span (span pinned by two tests): the decoded-command child
    of a caret-escaped encoded powershell invocation has end = len(decoded command)."""
    return bool(
        hx.known("C03-ps-enc-child-span")
        and p.type == "shell.cmd"
        and c.type == "shell.powershell"
        and c.obfuscation == "powershell.base64"
        and c.start == 0
        and c.end == len(c.value)
    )


def k_contract(dec, data, what=""):
    """The hit contract K (DESIGN 2): the call returns; every hit has 0 <= start <= end <=
    len(data); every pre-built descendant has a correct parent link and a span inside its
    parent's value.  -> (ok, hits)"""
    try:
        hits = dec(data)
    except Exception as e:  # noqa: BLE001  (CrossHair's own control-flow exceptions are BaseException)
        return hx.fail(f"{what or dec.__name__} raised {type(e).__name__}: {e}", data=data), None
    hx.trace([node_tuple(h) for h in hits])
    for h in hits:
        if h.parent is not None:
            return hx.fail("hit returned with a parent", data=data, hit=h), hits
        if not (0 <= h.start and h.start <= h.end and h.end <= len(data)) and not tolerated_hit_span(dec, data, h):
            return hx.fail(f"{what or dec.__name__}: hit span [{h.start}:{h.end}] outside data of length {len(data)}",
                           data=data, hit=h), hits
        stack = [h]
        while stack:
            p = stack.pop()
            for c in p.children:
                if c.parent is not p:
                    return hx.fail("pre-built child with wrong parent link", data=data, hit=h, child=c), hits
                if not (0 <= c.start and c.start <= c.end and c.end <= len(p.value)) and not tolerated_child_span(p, c):
                    return hx.fail(f"{what or dec.__name__}: child span [{c.start}:{c.end}] outside parent value of "
                                   f"length {len(p.value)}", data=data, hit=h, child=c), hits
                stack.append(c)
    return True, hits


def mk_template_ob(module_globals, name, tmpl: Tmpl, body_of_data, tier="both", timeout=300, functions=(), bound="",
                   extra_pre="", splits=(), stubs=(), thorough_timeout=None, layer="C", reach=True):
    """body_of_data(data) -> bool | (ok, interesting)"""

    def body(*values):
        return body_of_data(tmpl.build(values))

    body.__name__ = name
    module_globals[name] = body
    pre = " and ".join(p for p in (tmpl.pre(), extra_pre) if p)
    return Ob(name, body, tmpl.params, tier=tier, timeout=timeout, layer=layer, functions=list(functions),
              bound=(bound + " " if bound else "") + "input = " + tmpl.describe(), pre=pre, splits=splits,
              stubs=list(stubs), thorough_timeout=thorough_timeout, reach=reach)


def exactly_one(dec, data, start, end, type_, want_value, what, obf=None, via_scan=True):
    """the decoder alone and Multidecoder(decoders=[dec]).scan report exactly one hit of the given
    type with exactly [start, end) and the given value (a list of byte values)"""
    from vlib.ref.codecs import same_bytes
    from multidecoder.multidecoder import Multidecoder

    ok, hits = k_contract(dec, data, what)
    if not ok:
        return False
    views = [("decoder", hits)]
    if via_scan:
        try:
            tree = Multidecoder(decoders=[dec]).scan(data)
        except Exception as e:  # noqa: BLE001
            return hx.fail(f"{what}: scan raised {type(e).__name__}: {e}", data=data)
        views.append(("scan", tree.children))
    for vname, hs in views:
        if len(hs) != 1:
            return hx.fail(f"{what} ({vname}): expected exactly one node", data=data, hits=hs)
        h = hs[0]
        if not (h.start == start and h.end == end):
            return hx.fail(f"{what} ({vname}): span is not exactly the indicator [{start}:{end}]", data=data, hit=h)
        if h.type != type_ or (obf is not None and h.obfuscation != obf):
            return hx.fail(f"{what} ({vname}): wrong type/label", data=data, hit=h)
        if not same_bytes(h.value, want_value):
            return hx.fail(f"{what} ({vname}): wrong value", data=data, hit=h)
    return True
