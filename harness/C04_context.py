"""C04 -- context preservation: nesting never changes which bytes a result denotes (layer A)."""
import sys

sys.path.insert(0, "/verif")
from vlib import prelude  # noqa: F401

import engine_oracles as EO
from engine_gen import N3_HEAVY, N4, QUICK_PATTERNS, make


def oracle(cfg, root, out, root_value, depth, rebuild):
    return EO.context_preserved(cfg, root)


OBLIGATIONS = make(globals(), "context", oracle, QUICK_PATTERNS, N3_HEAVY + N4,
                   bound_extra="Oracle: for every decoder-made node kept in the tree, sum of enclosing context starts = reported start, same length, original == reported text up to case.")
