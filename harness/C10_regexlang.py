"""C10 (layer D) -- shape of every string the network regexes can match, at any length."""
import sys

sys.path.insert(0, "/verif")
from vlib import prelude  # noqa: F401
import z3
from regexlang_common import D09, HEXD, inclusion

import multidecoder.decoders.network as N

ANY = z3.Star(z3.Range(chr(0), chr(127)))
LDH = z3.Union(D09, z3.Range("a", "z"), z3.Range("A", "Z"), z3.Re("-"), z3.Re("."))


def ci(word):
    return z3.Concat(*[z3.Union(z3.Re(c.lower()), z3.Re(c.upper())) for c in word])


SCHEME = z3.Union(ci("ftp"), ci("http"), ci("https"))
OBLIGATIONS = [
    inclusion("domain_alphabet", lambda: N.DOMAIN_RE, 0, z3.Plus(LDH), "DOMAIN_RE: letters, digits, hyphens and dots only"),
    inclusion("domain_has_dot_tld", lambda: N.DOMAIN_RE, 0, z3.Concat(z3.Plus(LDH), z3.Re("."), z3.Plus(z3.Union(D09, z3.Range("a", "z"), z3.Range("A", "Z"), z3.Re("-")))),
              "DOMAIN_RE: ends in a dot and a non-empty dot-free label"),
    inclusion("email_shape", lambda: N.EMAIL_RE, 0, z3.Concat(z3.Plus(z3.Range("!", "~")), z3.Re("@"), z3.Plus(LDH)), "EMAIL_RE: local-part @ LDH domain"),
    inclusion("url_scheme_and_host", lambda: N.URL_RE, 0, z3.Concat(SCHEME, z3.Re("://"), z3.Plus(z3.Range("!", "~"))),
              "URL_RE: http/https/ftp (any case) :// and a non-empty remainder of printable ASCII"),
    inclusion("ip_alphabet", lambda: N.IP_RE, 0, z3.Plus(z3.Union(HEXD, z3.Re("x"), z3.Re("X"), z3.Re("."))), "IP_RE: digits, hex digits, x and dots only"),
]
for _o in OBLIGATIONS:
    globals()[_o.name] = _o.fn
