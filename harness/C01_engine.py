"""C01 (engine part) -- the engine terminates and the tree views complete for every registry honouring K (layer A),
plus the read-only views on real scan results of a small registry (layer C)."""
import sys

sys.path.insert(0, "/verif")
from vlib import prelude  # noqa: F401
from vlib import hx
from vlib.av import LoopGuard
from vlib.tmpl import Tmpl

from decoders_common import mk_template_ob
from engine_gen import make

from multidecoder.decoders.concat import find_concat
from multidecoder.decoders.filename import find_executable_name
from multidecoder.decoders.reverse import find_reverse
from multidecoder.multidecoder import Multidecoder
from multidecoder.query import make_label, string_summary


def oracle(cfg, root, out, root_value, depth, rebuild):
    # reaching this point means scan_node returned (a non-terminating context-pop loop would have tripped the
    # LoopGuard in AV.__len__ and surfaced as an exception = counterexample)
    try:
        nodes = list(root)
        len(nodes)
    except Exception as e:  # noqa: BLE001
        return f"a read-only view raised {type(e).__name__}: {e}"
    return ""


OBLIGATIONS = make(globals(), "total", oracle, ["PP", "PDp", "DdDp", "CP", "EPD", "ZP", "PDdP", "PCP", "PWD"], ["PPP", "PDpP", "PPDp", "DpDpDp", "PXP"],
                   bound_extra="Oracle: scan_node returns (loop guard on len() calls), iteration and labels complete.")


def views(data):
    try:
        tree = Multidecoder(decoders=[find_concat, find_reverse, find_executable_name]).scan(data)
        tree.flatten()
        list(tree)
        string_summary(tree)
    except Exception as e:  # noqa: BLE001
        return hx.fail(f"scan or a read-only view raised {type(e).__name__}: {e}", data=data), True
    return True, len(tree.children) > 0


OBLIGATIONS.append(mk_template_ob(globals(), "views_on_scan_result", Tmpl(b"'a.e'+'x", 1, b"e' "), views, tier="both", timeout=400,
                                  functions=["multidecoder.multidecoder.Multidecoder.scan", "multidecoder.node.Node.flatten",
                                             "multidecoder.node.Node.__iter__", "multidecoder.query.string_summary"],
                                  bound="small real registry (concat, reverse, exe names);"))
