"""Generates layer-A obligations: one per (oracle, pattern, depth)."""
import sys

sys.path.insert(0, "/verif")
from vlib import prelude  # noqa: F401
from vlib import hx
from vlib.hx import Ob
from vlib.synth import TY, dump

from engine_common import build, names_of, params, pre, run_engine, tokens

FUNCS = ["multidecoder.multidecoder.Multidecoder.scan_node", "multidecoder.node.Node.shift",
         "multidecoder.node.Node.original", "multidecoder.node.Node.__iter__", "multidecoder.node.Node.__init__"]

QUICK_PATTERNS = ["PP", "PV", "PDp", "DpP", "DdDp", "VDd", "DwP", "CP", "EPD", "PWD", "PPP", "PVDd", "PDdP", "PCP"]
N3_HEAVY = ["PPDp", "PDpP", "DpPP", "PDdDp", "DdPDp", "DpDpDp", "PXP", "PPV", "VPDd", "PDpDd", "CPP", "PPC", "PDdC"]
N4 = ["PPPP", "PPDdP", "PDdPP", "PPPDd"]


def make(module_globals, prefix, oracle, patterns_quick, patterns_thorough, depth=3, quick_timeout=300,
         thorough_timeout=900, types=True, bound_extra="", interesting=None):
    """oracle(cfg, root, out, root_value, depth, rebuild) -> '' or failure text"""
    obs = []
    seen = set()
    for tier, pats, tmo in (("both", patterns_quick, quick_timeout), ("thorough", patterns_thorough, thorough_timeout)):
        for pat in pats:
            if pat in seen:
                continue
            seen.add(pat)
            ps = params(pat, types=types)
            names = names_of(ps)

            def body(*values, _pat=pat, _names=names):
                def rebuild():
                    return build(_pat, _names, values)

                cfg, root_value = rebuild()
                md, root, out = run_engine(cfg, root_value, depth)
                msg = oracle(cfg, root, out, root_value, depth, rebuild)
                if msg:
                    return hx.fail(msg, pattern=_pat, depth=depth, args=dict(zip(_names, values)),
                                   tree="\n" + dump(root)), True
                if interesting is not None:
                    return True, interesting(cfg, root)
                return True, len(root.children) >= 1 and len(cfg.made) >= len(tokens(_pat))

            name = f"{prefix}_{pat}_k{depth}"
            body.__name__ = name
            module_globals[name] = body
            obs.append(Ob(name, body, ps, tier=tier, timeout=tmo, layer="A", functions=FUNCS, pre=pre(pat),
                          thorough_timeout=max(tmo, 600) if tier == "both" else tmo,
                          bound=f"root hits of kinds {pat} (harness/engine_common.py), free spans over a text of free "
                                f"length <= 24, free sub-hit spans, free type codes, depth limit {depth}. {bound_extra}",
                          path_timeout=60))
    return obs
