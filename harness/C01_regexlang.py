"""C01 (layer D) -- conversion preconditions hold for every string the regexes let through, at any length."""
import sys

sys.path.insert(0, "/verif")
from vlib import prelude  # noqa: F401
import z3
from regexlang_common import B64, D09, HEXD, LE255, inclusion

import multidecoder.decoders.base64 as B
import multidecoder.decoders.chr as C
import multidecoder.decoders.hex as H
import multidecoder.decoders.powershell as PS
import multidecoder.decoders.xml as X
import multidecoder.xor_helper as XH

XML_REF = z3.Union(z3.Concat(z3.Union(z3.Re("x"), z3.Re("X")), z3.Loop(HEXD, 2, 2)), LE255)
B64ARG = z3.Concat(z3.Plus(B64), z3.Loop(z3.Re("="), 0, 2))
PSELEM = z3.Union(z3.Concat(z3.Re("0"), z3.Union(z3.Re("x"), z3.Re("X")), z3.Loop(HEXD, 2, 2)), z3.Loop(D09, 1, 3))
WS = z3.Star(z3.Union(z3.Re(" "), z3.Range("\t", "\r")))

OBLIGATIONS = [
    inclusion("xml_ref_is_hex_or_byte", lambda: X.XML_ESCAPE_RE, 1, XML_REF,
              "XML_ESCAPE_RE group 1: every reference is x+two hex digits or a decimal 0..255, so int()/bytes() in unescape_xml cannot raise"),
    inclusion("chr_arg_is_digits", lambda: C.CHR_RE, 1, z3.Concat(z3.Star(z3.Re("0")), z3.Loop(D09, 1, 5)),
              "CHR_RE group 1: zeros then 1-5 digits, so int() cannot raise and the value is < 0x110000"),
    inclusion("hex_run_is_pairs", lambda: H.HEX_RE, 0, z3.Plus(z3.Loop(HEXD, 2, 2)),
              "HEX_RE: an even number of hex digits, so unhexlify cannot raise"),
    inclusion("fromhexstring_arg_is_pairs", lambda: H.FROMHEXSTRING_RE, 2, z3.Plus(z3.Loop(HEXD, 2, 2)),
              "FROMHEXSTRING_RE group 2: an even number of hex digits"),
    inclusion("atob_arg_shape", lambda: B.ATOB_RE, 1, B64ARG, "ATOB_RE group 1: alphabet characters then at most two '='"),
    inclusion("base64decode_arg_shape", lambda: B.BASE64DECODE_RE, 1, B64ARG, "BASE64DECODE_RE group 1: alphabet characters then at most two '='"),
    inclusion("frombase64string_arg_shape", lambda: B.FROMB64STRING_RE, 2, B64ARG, "FROMB64STRING_RE group 2: alphabet characters then at most two '='"),
    inclusion("xor_key_is_1_3_digits", lambda: XH.XOR_RE, 1, z3.Loop(D09, 1, 3), "XOR_RE group 1: 1-3 digits, so int() cannot raise"),
    inclusion("xor_key_may_exceed_a_byte", lambda: XH.XOR_RE, 1, LE255,
              "XOR_RE group 1 is NOT confined to 0..255 (expected sat): the guard in apply_xor_key is needed", expect="sat"),
    inclusion("powershell_bytes_elements", lambda: PS.POWERSHELL_BYTES_RE, 0,
              z3.Concat(z3.Plus(z3.Concat(PSELEM, z3.Re(","), WS)), PSELEM),
              "POWERSHELL_BYTES_RE: comma separated 0xHH / 1-3 digit elements, so decode_byte's int() cannot raise (values > 255 raise ValueError, which is caught)"),
]
for _o in OBLIGATIONS:
    globals()[_o.name] = _o.fn
