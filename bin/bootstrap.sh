#!/bin/bash
# Create the overlay interpreter /verif/.venv (= /venv python 3.12 + crosshair-tool + z3-solver), offline.
# Idempotent and safe to call concurrently (flock).
set -e
V="$(cd "$(dirname "$0")/.." && pwd)"
VENV="$V/.venv"
export PIP_NO_INDEX=1
mkdir -p "$V/evidence"
exec 9>"$V/.bootstrap.lock"
flock 9
if [ -x "$VENV/bin/python" ] && "$VENV/bin/python" -c "import crosshair, z3, regex, multidecoder" 2>/dev/null; then
  exit 0
fi
rm -rf "$VENV"
/venv/bin/python -m venv "$VENV"
SP="$("$VENV/bin/python" -c 'import sysconfig;print(sysconfig.get_paths()["purelib"])')"
printf "import site; site.addsitedir('/venv/lib/python3.12/site-packages')\n" > "$SP/zz_base_venv.pth"
"$VENV/bin/pip" install -q --no-index --find-links /opt/veriftools/wheels crosshair-tool z3-solver >/dev/null
"$VENV/bin/python" -c "import crosshair, z3, regex, multidecoder; print('overlay ok', crosshair.__version__ if hasattr(crosshair,'__version__') else '')"
