#!/usr/bin/env python3
"""Regenerate MANIFEST.json from data/manifest_src.json (claimed checks) + properties.jsonl."""
import json, os
V = os.path.dirname(os.path.dirname(os.path.abspath(__file__)))
src = json.load(open(os.path.join(V, "data", "manifest_src.json")))
props = [json.loads(l) for l in open(os.path.join(V, "properties.jsonl"))]
checks, na = [], []
for p in props:
    pid = p["id"]
    c = src["checks"].get(pid)
    if c is None:
        na.append({"property_id": pid, "reason": src["not_applicable"].get(pid, "no check built yet for this property")})
        continue
    checks.append({
        "property_id": pid,
        "quick_cmd": f"bin/check {pid} quick",
        "thorough_cmd": f"bin/check {pid} thorough",
        "evidence_file": f"/verif/evidence/{pid}.json",
        "replay_cmd_template": "bin/check --replay {path}",
        "engine": "crosshair-z3",
        "level_claimed": {"category": "model_checking", "text": c["text"], "design_ref": c.get("design_ref", "DESIGN.md section 3")},
        "level_note": c["note"],
        "technique": c["technique"],
    })
m = {
    "version": 1,
    "setup_cmd": "bin/bootstrap.sh",
    "hooks": {
        "guard": "CYBERCENTRECANADA_MULTIDECODER_VERIF",
        "enable": "no source hooks are needed: harnesses replace modules (regex adapter, stubs) from their prelude when VERIF_SYMBOLIC=1",
        "baseline_off_cmd": "cd /repo && /venv/bin/python -m pytest -ra -q -p no:cacheprovider --timeout=900 --continue-on-collection-errors",
        "source_commits": src.get("source_commits", []),
        "add_only": True,
    },
    "engines": [{
        "name": "crosshair-z3",
        "path": "vlib/runner.py",
        "serves_properties": [c["property_id"] for c in checks],
        "kind_free_text": "bounded symbolic execution of the real Python functions (CrossHair 0.0.110, z3) with a repaired symbolic regex matcher and C-boundary models (vlib/chx); one process per obligation; counterexamples replayed on the untouched code",
    }],
    "checks": checks,
    "not_applicable": na,
    "notes": src.get("notes", ""),
}
json.dump(m, open(os.path.join(V, "MANIFEST.json"), "w"), indent=1)
print("checks:", [c["property_id"] for c in checks], "n/a:", [n["property_id"] for n in na])
