"""
Adapter that stands in for the third-party ``regex`` module (a C extension no Python
symbolic executor can see into) while a harness runs under CrossHair.

It exposes exactly the call surface Multidecoder uses and serves it from stdlib
``re``, whose Pattern methods CrossHair intercepts (see vlib/chx/rematch.py).  It is
installed as ``sys.modules["regex"]`` by vlib/prelude.py *before* multidecoder is
imported, and only when VERIF_SYMBOLIC=1; replays and cross-checks use the real
``regex``.

The one ``regex``-only construct in the repository, the reverse flag in
``re.match(rb"(?r):\\d*", address)`` (used only for its truthiness: "does the string
end with :digits"), is emulated by ``search(rb"(?::\\d*)\\Z")``.
"""
from __future__ import annotations

import re as _re

__version__ = "reshim-over-stdlib-re"

error = _re.error
Match = _re.Match
Pattern = _re.Pattern
I = IGNORECASE = _re.IGNORECASE  # noqa: E741
M = MULTILINE = _re.MULTILINE
S = DOTALL = _re.DOTALL
X = VERBOSE = _re.VERBOSE
A = ASCII = _re.ASCII



def _rewrite(pattern):
    if isinstance(pattern, bytes) and pattern.startswith(b"(?r)"):
        return b"(?:" + pattern[4:] + b")\\Z", True
    if isinstance(pattern, str) and pattern.startswith("(?r)"):
        return "(?:" + pattern[4:] + ")\\Z", True
    return pattern, False


def compile(pattern, flags=0):  # noqa: A001
    # No cache of our own: a pattern may be a symbolic value (built from matched text), and a module-level
    # cache keyed by symbolic objects would leak state from one explored path into the next.  stdlib re caches
    # compiled patterns itself (CrossHair realises the pattern before it reaches that cache).
    if isinstance(pattern, _re.Pattern):
        return pattern
    pat, _ = _rewrite(pattern)
    return _re.compile(pat, flags)


def finditer(pattern, string, flags=0, pos=None, endpos=None):
    p = compile(pattern, flags)
    if pos is None and endpos is None:
        return p.finditer(string)
    if endpos is None:
        return p.finditer(string, pos)
    return p.finditer(string, pos or 0, endpos)


def search(pattern, string, flags=0, pos=None, endpos=None):
    p = compile(pattern, flags)
    if pos is None and endpos is None:
        return p.search(string)
    if endpos is None:
        return p.search(string, pos)
    return p.search(string, pos or 0, endpos)


def match(pattern, string, flags=0, pos=None, endpos=None):
    _, reverse = _rewrite(pattern) if not isinstance(pattern, _re.Pattern) else (pattern, False)
    p = compile(pattern, flags)
    if reverse:
        # (?r)X with match(): X must match ending at the end of the string.
        return p.search(string)
    if pos is None and endpos is None:
        return p.match(string)
    if endpos is None:
        return p.match(string, pos)
    return p.match(string, pos or 0, endpos)


def fullmatch(pattern, string, flags=0, pos=None, endpos=None):
    p = compile(pattern, flags)
    if pos is None and endpos is None:
        return p.fullmatch(string)
    if endpos is None:
        return p.fullmatch(string, pos)
    return p.fullmatch(string, pos or 0, endpos)


def sub(pattern, repl, string, count=0, flags=0):
    return compile(pattern, flags).sub(repl, string, count)


def subn(pattern, repl, string, count=0, flags=0):
    return compile(pattern, flags).subn(repl, string, count)


def split(pattern, string, maxsplit=0, flags=0):
    return compile(pattern, flags).split(string, maxsplit)


def findall(pattern, string, flags=0):
    return [m.group() if not m.re.groups else (m.group(1) if m.re.groups == 1 else m.groups()) for m in finditer(pattern, string, flags)]


def escape(pattern):
    return _re.escape(pattern)
