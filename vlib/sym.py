"""Branch-free boolean/integer helpers that work on python values and on CrossHair
symbolic values alike.  Reference models use them so that the *reference* does not
multiply program paths (a plain `if` on a symbolic value forks the path; `&`, `|`,
`== False` and arithmetic do not)."""


def bnot(x):
    # NB: no type test here -- under CrossHair type()/isinstance() report python types for
    # symbolic values, and `not x` would fork.  `x == False` is right for both.
    return x == False  # noqa: E712


def band(*xs):
    acc = True
    for x in xs:
        acc = acc & x
    return acc


def bor(*xs):
    acc = False
    for x in xs:
        acc = acc | x
    return acc


def ball(it):
    acc = True
    for x in it:
        acc = acc & x
    return acc


def bany(it):
    acc = False
    for x in it:
        acc = acc | x
    return acc


def ite(c, a, b):
    """integer if-then-else without forking"""
    return b + (a - b) * c


def between(lo, x, hi):
    return (lo <= x) & (x <= hi)
