"""
Abstract byte strings for the engine harnesses (DESIGN 1.5).

`scan_node` never looks inside a value: it uses len(), truthiness, slicing, lower() and
==/!=.  AV(tid, lo, hi, var) stands for "the bytes [lo, hi) of generic text #tid in case
variant var" with exactly those operations over (possibly symbolic) ints, so that the
engine runs on symbolic spans without CrossHair enumerating offsets.

Generic text: a text whose every position holds a distinct cased letter, so two values
are equal iff both are empty or they are the same slice of the same text in the same
case variant; var 0 = as written, var 1 = lower-cased, var 2 = some other case variant
(lower() maps 0 and 2 to 1).
"""
from vlib.sym import band, bnot, bor, ite

LEN_CALLS = [0]
LEN_LIMIT = 20000


class LoopGuard(Exception):
    """raised when len() of abstract values has been taken implausibly often on one path:
    turns a non-terminating loop in the code under test into a failure instead of a hang"""


def _clamp(i, n, default):
    if i is None:
        return default
    i = ite(i < 0, i + n, i)
    i = ite(i < 0, 0, i)
    i = ite(i > n, n, i)
    return i


class AV:
    __slots__ = ("tid", "lo", "hi", "var")

    def __init__(self, tid, lo, hi, var=0):
        self.tid = tid
        self.lo = lo
        self.hi = hi
        self.var = var

    def __len__(self):
        LEN_CALLS[0] += 1
        if LEN_CALLS[0] > LEN_LIMIT:
            raise LoopGuard("len() called more than %d times" % LEN_LIMIT)
        return self.hi - self.lo

    def __bool__(self):
        return bool(self.hi > self.lo)

    def __getitem__(self, sl):
        if not isinstance(sl, slice) or sl.step is not None:
            raise TypeError("AV supports plain slices only")
        n = self.hi - self.lo
        s = _clamp(sl.start, n, 0)
        e = _clamp(sl.stop, n, n)
        e = ite(e < s, s, e)
        return AV(self.tid, self.lo + s, self.lo + e, self.var)

    def lower(self):
        return AV(self.tid, self.lo, self.hi, 1)

    def __eq__(self, other):
        if not isinstance(other, AV):
            return False
        n1 = self.hi - self.lo
        n2 = other.hi - other.lo
        same = band(self.tid == other.tid, self.lo == other.lo, self.var == other.var)
        return band(n1 == n2, bor(n1 == 0, same))

    def __ne__(self, other):
        return bnot(self.__eq__(other))

    __hash__ = None  # type: ignore

    def __repr__(self):
        return f"AV(t{self.tid}[{self.lo}:{self.hi}]v{self.var})"

    def concretize(self, texts):
        """real bytes for this value given concrete generic texts {tid: bytes}"""
        raw = texts[self.tid][self.lo : self.hi]
        if self.var == 1:
            return raw.lower()
        if self.var == 2:
            return raw.swapcase()
        return raw
