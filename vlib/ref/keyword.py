"""Reference model for C17, written from the property statement.  Integer arithmetic,
branch-light (see vlib/sym.py): one decision per candidate position, like a human
would describe the search."""
from vlib.sym import ball, band, bany, bnot, between, bor


def lower_b(b):
    return b + 32 * between(65, b, 90)


def is_alnum_b(b):
    return bor(between(48, b, 57), between(65, b, 90), between(97, b, 122))


def ref_occurrences(kw, data):
    """Start offsets of the leftmost, non-overlapping, case-insensitive occurrences of kw in
    data whose neighbouring bytes, if any, are not ASCII letters or digits."""
    kw = list(kw)
    data = list(data)
    n = len(kw)
    out = []
    if n == 0:
        return out
    lk = [lower_b(c) for c in kw]
    ld = [lower_b(c) for c in data]
    i = 0
    while i + n <= len(data):
        if ball(ld[i + j] == lk[j] for j in range(n)):
            left_ok = True if i == 0 else bnot(is_alnum_b(data[i - 1]))
            right_ok = True if i + n == len(data) else bnot(is_alnum_b(data[i + n]))
            if band(left_ok, right_ok):
                out.append(i)
            i += n
        else:
            i += 1
    return out


def ref_mixed_case(kw, raw):
    """raw: the matched text (equal to kw ignoring ASCII case).  MixedCase exactly when raw
    is neither all upper- nor all lower-case and differs in letter case from kw."""
    kw = list(kw)
    raw = list(raw)
    any_up = bany(between(65, b, 90) for b in raw)
    any_lo = bany(between(97, b, 122) for b in raw)
    all_upper = band(any_up, bnot(any_lo))
    all_lower = band(any_lo, bnot(any_up))
    differs = bany(a != b for a, b in zip(raw, kw))
    return band(bnot(bor(all_upper, all_lower)), differs)
