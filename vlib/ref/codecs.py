"""Reference decoders for C13 / C14 / C15, written from the property statements with
integer arithmetic on lists of byte values (work on python ints and on symbolic ints;
branch-light, see vlib/sym.py).  They are deliberately independent of vlib/chx/models.py."""
from vlib.sym import ball, band, bany, between, bnot, bor, ite


# ---- RFC 4648 base64 ------------------------------------------------------------------------

def is_b64_char(c):
    return bor(between(65, c, 90), between(97, c, 122), between(48, c, 57), c == 43, c == 47)


def b64_sextet(c):
    """value 0..63 of an alphabet character (A-Z a-z 0-9 + /)"""
    return (ite(between(65, c, 90), c - 65, 0) + ite(between(97, c, 122), c - 71, 0) + ite(between(48, c, 57), c + 4, 0)
            + ite(c == 43, 62, 0) + ite(c == 47, 63, 0))


def b64_decode_chars(chars):
    """RFC 4648 decoding of a list of alphabet characters (padding already removed);
    len(chars) % 4 must not be 1.  Leftover bits are discarded."""
    vals = [b64_sextet(c) for c in chars]
    out = []
    n = len(vals)
    full = n - n % 4
    for i in range(0, full, 4):
        a, b, c, d = vals[i:i + 4]
        out += [a * 4 + b // 16, (b % 16) * 16 + c // 4, (c % 4) * 64 + d]
    r = n % 4
    if r == 2:
        a, b = vals[full:]
        out += [a * 4 + b // 16]
    elif r == 3:
        a, b, c = vals[full:]
        out += [a * 4 + b // 16, (b % 16) * 16 + c // 4]
    return out


# ---- hexadecimal ------------------------------------------------------------------------------

def is_hex_char(c):
    return bor(between(48, c, 57), between(65, c, 70), between(97, c, 102))


def hex_nibble(c):
    return ite(between(48, c, 57), c - 48, 0) + ite(between(65, c, 70), c - 55, 0) + ite(between(97, c, 102), c - 87, 0)


def hex_decode_chars(chars):
    return [hex_nibble(chars[i]) * 16 + hex_nibble(chars[i + 1]) for i in range(0, len(chars) - 1, 2)]


# ---- percent decoding ---------------------------------------------------------------------------

def percent_decode(chars):
    """'%' followed by two hex digits -> that byte; everything else unchanged"""
    chars = list(chars)
    out = []
    i = 0
    n = len(chars)
    while i < n:
        if i + 2 < n and band(chars[i] == 37, is_hex_char(chars[i + 1]), is_hex_char(chars[i + 2])):
            out.append(hex_nibble(chars[i + 1]) * 16 + hex_nibble(chars[i + 2]))
            i += 3
        else:
            out.append(chars[i])
            i += 1
    return out


# ---- UTF-8 ---------------------------------------------------------------------------------------

def utf8_len(cp):
    return 1 + (cp >= 0x80) + (cp >= 0x800) + (cp >= 0x10000)


def utf8_encode(cp):
    """UTF-8 bytes of one code point (not a surrogate, <= 0x10FFFF); the length decision forks."""
    if cp < 0x80:
        return [cp]
    if cp < 0x800:
        return [0xC0 + cp // 64, 0x80 + cp % 64]
    if cp < 0x10000:
        return [0xE0 + cp // 4096, 0x80 + (cp // 64) % 64, 0x80 + cp % 64]
    return [0xF0 + cp // 262144, 0x80 + (cp // 4096) % 64, 0x80 + (cp // 64) % 64, 0x80 + cp % 64]


def is_surrogate(cp):
    return between(0xD800, cp, 0xDFFF)


# ---- generic ---------------------------------------------------------------------------------------

def same_bytes(got, want):
    """got: bytes-like, want: list of byte values -> (possibly symbolic) bool"""
    if len(got) != len(want):
        return False
    acc = True
    for g, w in zip(got, want):
        acc = acc & (g == w)
    return acc


def replace_all(x, a, b):
    """x with every (leftmost, non-overlapping) occurrence of non-empty a replaced by b"""
    x, a, b = list(x), list(a), list(b)
    out = []
    i = 0
    n, k = len(x), len(a)
    while i < n:
        if i + k <= n and ball(x[i + j] == a[j] for j in range(k)):
            out += b
            i += k
        else:
            out.append(x[i])
            i += 1
    return out


def digits_value(chars):
    v = 0
    for c in chars:
        v = v * 10 + (c - 48)
    return v
