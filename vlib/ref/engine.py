"""
Reference interval-nesting procedure for C06, written from the property statement
(absolute coordinates, explicit containment test) -- deliberately not a transcription
of scan_node's offset/stack arithmetic.

A tree node of the reference is RNode(type, value, start, end, children, src) where
start/end are relative to the parent's value, like multidecoder.node.Node.
"""
from vlib.sym import band


class RNode:
    __slots__ = ("type", "value", "obfuscation", "start", "end", "children", "parent", "src", "prebuilt")

    def __init__(self, type_, value, obfuscation, start, end, children=None, src=None):
        self.type = type_
        self.value = value
        self.obfuscation = obfuscation
        self.start = start
        self.end = end
        self.children = children or []
        self.parent = None
        self.src = src
        self.prebuilt = bool(children)
        for c in self.children:
            c.parent = self


def covered(parent_value, start, end):
    return parent_value[start:end]


def ref_scan(node: RNode, depth: int, hits_of):
    """hits_of(value) -> list of RNode (fresh, absolute spans in `value`), in registry order."""
    if depth <= 0:
        return node
    if node.children:
        # only descend into sub-structure a decoder supplied itself
        for c in node.children:
            ref_scan(c, depth - 1, hits_of)
        return node
    hits = [h for h in hits_of(node.value) if h.value]
    # order: start ascending, end descending, registry order (stable)
    order = sorted(range(len(hits)), key=lambda i: (hits[i].start, -hits[i].end))
    decoded_end = 0  # absolute end of the last decoded span
    open_ctx = []  # [(rnode, abs_start, abs_end)] innermost last
    for i in order:
        h = hits[i]
        a, b = h.start, h.end
        if b <= decoded_end:
            continue  # ends inside an already-decoded span
        while open_ctx and not band(open_ctx[-1][1] <= a, b <= open_ctx[-1][2]):
            open_ctx.pop()
        if open_ctx:
            parent, base, _ = open_ctx[-1]
        else:
            parent, base = node, 0
        rs, re_ = a - base, b - base
        if band(rs == 0, h.value == parent.value, h.type == parent.type):
            continue  # merely restates its parent
        h.start, h.end = rs, re_
        h.parent = parent
        parent.children.append(h)
        decoded = (h.value.lower() != covered(parent.value, rs, re_).lower()) or bool(h.children)
        if decoded:
            decoded_end = b
            ref_scan(h, depth - 1, hits_of)
        else:
            open_ctx.append((h, a, b))
    return node
