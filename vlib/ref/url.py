"""Reference models for C10 / C12 (URL parts), from the property statements."""
from vlib.ref.codecs import hex_nibble, is_hex_char, percent_decode
from vlib.sym import ball, band, bany, between, bnot, bor


def split_on(chars, sep):
    out = [[]]
    for c in chars:
        if c == sep:
            out.append([])
        else:
            out[-1].append(c)
    return out


def eq_lit(seg, lit: bytes):
    return len(seg) == len(lit) and ball(a == b for a, b in zip(seg, lit))


def ref_normalize_path(path):
    """-> (normalised path as list of byte values, label removed?)
    percent-decode every segment (a decoded '/' stays encoded as %2F), drop every '.' segment,
    let every '..' segment cancel the nearest remaining segment before it but never the root."""
    path = list(path)
    absolute = len(path) > 0 and bool(path[0] == 47)
    segs = split_on(path, 47)
    dec = []
    for s in segs:
        d = []
        for c in percent_decode(s):
            if c == 47:
                d += [37, 50, 70]  # %2F
            else:
                d.append(c)
        dec.append(d)
    out = []
    removed = False
    for idx, s in enumerate(dec):
        if eq_lit(s, b"."):
            removed = True
        elif eq_lit(s, b".."):
            removed = True
            floor = 1 if absolute else 0  # the leading empty segment of an absolute path is the root
            if len(out) > floor:
                out.pop()
        else:
            out.append(s)
    res = []
    for i, s in enumerate(out):
        if i:
            res.append(47)
        res += s
    if absolute and len(out) <= 1 and not res:
        res = [47]
    return res, removed


UNRESERVED = lambda c: bor(between(65, c, 90), between(97, c, 122), between(48, c, 57), c == 45, c == 46, c == 95, c == 126)  # noqa: E731


def upper_hex(c):
    return c - 32 * between(97, c, 102)


def ref_normalize_percent(uri):
    """escapes of unreserved characters decoded, all other escapes upper-cased -> (list, shortened?)"""
    uri = list(uri)
    out = []
    i = 0
    n = len(uri)
    shortened = False
    while i < n:
        if i + 2 < n and band(uri[i] == 37, is_hex_char(uri[i + 1]), is_hex_char(uri[i + 2])):
            v = hex_nibble(uri[i + 1]) * 16 + hex_nibble(uri[i + 2])
            if UNRESERVED(v):
                out.append(v)
                shortened = True
            else:
                out += [37, upper_hex(uri[i + 1]), upper_hex(uri[i + 2])]
            i += 3
        else:
            out.append(uri[i])
            i += 1
    return out, shortened
