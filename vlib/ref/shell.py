"""Reference models for C16, from the property statement."""
from vlib.sym import band, bnot


def ref_strip_carets(cmd):
    """cmd.exe caret rules on a list of byte values -> list of byte values.
    Outside double quotes a caret is dropped and the next character kept literally; a caret
    before CR LF is a line continuation (all three vanish, the character after them is kept
    literally); a trailing caret is dropped; inside quotes carets are literal; a CR ends a
    quoted region."""
    cmd = list(cmd)
    n = len(cmd)
    out = []
    in_q = False
    i = 0
    while i < n:
        c = cmd[i]
        if c == 34:  # "
            in_q = not in_q
            out.append(c)
            i += 1
        elif c == 13:  # CR
            in_q = False
            out.append(c)
            i += 1
        elif band(c == 94, not in_q):  # ^ outside quotes
            i += 1
            if i >= n:
                break  # trailing caret dropped
            if i + 1 < n and band(cmd[i] == 13, cmd[i + 1] == 10):
                i += 2  # line continuation
                if i < n:
                    out.append(cmd[i])
                    i += 1
            else:
                out.append(cmd[i])
                i += 1
        else:
            out.append(c)
            i += 1
    return out
