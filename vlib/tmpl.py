"""Input templates: concrete skeleton bytes with holes of free bytes (DESIGN 1.4)."""
from __future__ import annotations

from typing import List, Sequence, Tuple, Union

CLASSES = {
    "byte": "0 <= {x} < 256",
    "b64": "((65 <= {x} <= 90) or (97 <= {x} <= 122) or (48 <= {x} <= 57) or {x} == 43 or {x} == 47)",
    "b64pad": "((65 <= {x} <= 90) or (97 <= {x} <= 122) or (48 <= {x} <= 57) or {x} == 43 or {x} == 47 or {x} == 61)",
    "digit": "(48 <= {x} <= 57)",
    "hex": "((48 <= {x} <= 57) or (65 <= {x} <= 70) or (97 <= {x} <= 102))",
    "lhex": "((48 <= {x} <= 57) or (97 <= {x} <= 102))",
    "uhex": "((48 <= {x} <= 57) or (65 <= {x} <= 70))",
    "alpha": "((65 <= {x} <= 90) or (97 <= {x} <= 122))",
    "lower": "(97 <= {x} <= 122)",
    "alnum": "((65 <= {x} <= 90) or (97 <= {x} <= 122) or (48 <= {x} <= 57))",
    "print": "(32 <= {x} <= 126)",
    "noquote": "(0 <= {x} < 256 and {x} != 34 and {x} != 39 and {x} != 96 and {x} != 92)",
    "ascii": "(0 <= {x} < 128)",
}

_SAMPLE = {
    "b64": b"ABCXYZabcxyz0189+/", "b64pad": b"ABCxyz019+/=", "digit": b"0123456789", "hex": b"09afAF", "lhex": b"09af",
    "uhex": b"09AF", "alpha": b"azAZ", "lower": b"az", "alnum": b"azAZ09", "print": bytes(range(32, 127)),
}


class Tmpl:
    def __init__(self, *segs: Union[bytes, int, Tuple[int, str]], prefix: str = "h"):
        self.segs: List[Union[bytes, Tuple[int, str]]] = []
        for s in segs:
            if isinstance(s, (bytes, bytearray)):
                self.segs.append(bytes(s))
            elif isinstance(s, int):
                self.segs.append((s, "byte"))
            else:
                self.segs.append((int(s[0]), s[1]))
        self.prefix = prefix
        self.params: List[Tuple[str, str]] = []
        self.classes: List[str] = []
        for s in self.segs:
            if isinstance(s, tuple):
                for _ in range(s[0]):
                    self.params.append((f"{prefix}{len(self.params)}", "byte"))
                    self.classes.append(s[1])

    @property
    def nfree(self) -> int:
        return len(self.params)

    def pre(self) -> str:
        cs = [CLASSES[c].format(x=n) for (n, _), c in zip(self.params, self.classes) if c != "byte"]
        return " and ".join(cs)

    def build(self, values: Sequence[int]) -> bytes:
        vals = list(values)
        out = b""
        k = 0
        for s in self.segs:
            if isinstance(s, tuple):
                out = out + bytes(vals[k : k + s[0]])
                k += s[0]
            else:
                out = out + s
        return out

    def length(self) -> int:
        return sum(len(s) if isinstance(s, bytes) else s[0] for s in self.segs)

    def hole_offsets(self) -> List[int]:
        """absolute offset in the built input of every free byte"""
        out = []
        pos = 0
        for s in self.segs:
            if isinstance(s, tuple):
                out.extend(range(pos, pos + s[0]))
                pos += s[0]
            else:
                pos += len(s)
        return out

    def describe(self) -> str:
        parts = []
        for s in self.segs:
            parts.append(repr(s)[1:] if isinstance(s, bytes) else f"<{s[0]} free {s[1]}>")
        return " + ".join(parts)

    def sample_filter(self):
        return None
