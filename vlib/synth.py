"""
Synthetic registries for the engine harnesses (layer A).

A configuration is a set of generic texts (vlib/av.py) and, per text, a list of hit
specifications with (possibly symbolic) spans.  `decoders(cfg)` returns a registry --
one decoder function per hit specification, in specification order, so that registry
order is index order and ties are exercised -- whose functions return fresh Node
objects every time they are called with the text they belong to, and nothing for any
other value.  `ref_hits_of(cfg)` serves the same hits to the reference model.
"""
from __future__ import annotations

from typing import Any, Callable, Dict, List, Optional

from vlib.av import AV
from vlib.ref.engine import RNode

TYPES = ("", "t", "u")


class TY:
    """A node type whose identity is a (possibly symbolic) small integer code, so that the
    engine's `hit.type == node.type` becomes an integer comparison instead of forcing the
    solver to enumerate concrete strings.  Code 0 stands for the empty type of a scan root."""

    __slots__ = ("code",)

    def __init__(self, code):
        self.code = code

    def __eq__(self, other):
        if isinstance(other, TY):
            return self.code == other.code
        if isinstance(other, str):
            return self.code == 0 if other == "" else False
        return False

    def __ne__(self, other):
        r = self.__eq__(other)
        return r == False  # noqa: E712

    def __bool__(self):
        return bool(self.code != 0)

    __hash__ = None  # type: ignore

    def __repr__(self):
        return f"TY({self.code})"


class ChildSpec:
    def __init__(self, type_, value, start, end):
        self.type = type_
        self.value = value
        self.start = start
        self.end = end


class HitSpec:
    def __init__(self, tid, start, end, type_, value, children=(), obf=""):
        self.tid = tid
        self.start = start
        self.end = end
        self.type = type_
        self.value = value
        self.children = list(children)
        self.obf = obf
        self.index = -1


class Config:
    def __init__(self):
        self.text_len: Dict[int, Any] = {}
        self.specs: List[HitSpec] = []
        self.calls: List[int] = []  # tids searched, in call order (one entry per decoder call)
        self.made: List[tuple] = []  # (node object, spec) for every node handed to the engine
        self.searched_values: List[Any] = []  # value objects the decoders were called with
        self.round_of: Dict[int, int] = {}  # id(node) -> id(value searched) when it was made
        self.keep: List[Any] = []
        self.searched_tids: List[Any] = []  # tid of every value any decoder was applied to
        self.chain: Optional[Callable[[int], Optional[HitSpec]]] = None

    def text(self, tid, length) -> AV:
        self.text_len[tid] = length
        return AV(tid, 0, length, 0)

    def whole(self, tid) -> AV:
        return AV(tid, 0, self.text_len[tid], 0)

    def add(self, spec: HitSpec) -> HitSpec:
        spec.index = len(self.specs)
        self.specs.append(spec)
        return spec


def _const_zero(x) -> bool:
    return type(x) is int and x == 0


def decoders(cfg: Config, Node) -> list:
    def mk(spec: HitSpec):
        def search(value):
            if not (isinstance(value, AV) and value.tid == spec.tid and value.var == 0 and _const_zero(value.lo)):
                return []
            cfg.calls.append(spec.tid)
            if not any(v is value for v in cfg.searched_values):
                cfg.searched_values.append(value)
            kids = [Node(c.type, c.value, "", c.start, c.end) for c in spec.children]
            v = spec.value
            v = AV(v.tid, v.lo, v.hi, v.var)  # fresh object per hit: value identity names the search round
            n = Node(spec.type, v, spec.obf, spec.start, spec.end, children=kids or None)
            cfg.made.append((n, spec))
            cfg.round_of[id(n)] = id(value)
            return [n]

        search.__name__ = f"synth_{spec.index}"
        return search

    def recorder(value):
        cfg.searched_tids.append(value.tid if isinstance(value, AV) else None)
        return []

    return [recorder] + [mk(s) for s in cfg.specs]


def ref_hits_of(cfg: Config) -> Callable[[Any], List[RNode]]:
    def hits_of(value):
        out = []
        for spec in cfg.specs:
            if isinstance(value, AV) and value.tid == spec.tid and value.var == 0 and _const_zero(value.lo):
                kids = [RNode(c.type, c.value, "", c.start, c.end) for c in spec.children]
                out.append(RNode(spec.type, spec.value, spec.obf, spec.start, spec.end, kids, src=spec))
        return out

    return hits_of


# ---- tree comparison ----------------------------------------------------------------------


def _shape_and_eqs(n, r, path, eqs):
    """Collect (symbolic) field equalities of two trees of identical shape; returns a string
    describing the first *structural* difference (child counts, parent links) or ''."""
    if len(n.children) != len(r.children):
        return f"{path}: {len(n.children)} children vs model {len(r.children)}"
    for i, (c, rc) in enumerate(zip(n.children, r.children)):
        p = f"{path}.{i}"
        if c.parent is not n:
            return f"{p}: parent link wrong"
        eqs.append((p + ".type", c.type == rc.type))
        eqs.append((p + ".start", c.start == rc.start))
        eqs.append((p + ".end", c.end == rc.end))
        eqs.append((p + ".value", c.value == rc.value))
        where = _shape_and_eqs(c, rc, p, eqs)
        if where:
            return where
    return ""


def same_tree(n, r, path="root"):
    """Node tree vs RNode tree: (ok, where).  All field comparisons are folded into one
    symbolic conjunction, so the comparison costs one solver decision per tree."""
    eqs: list = []
    where = _shape_and_eqs(n, r, path, eqs)
    if where:
        return False, where
    conj = True
    for _p, e in eqs:
        conj = conj & e
    if conj:
        return True, ""
    for p, e in eqs:
        if not e:
            return False, f"{p} differs"
    return False, "differs"


def dump(n, depth=0) -> str:
    out = []
    for c in n.children:
        out.append("  " * depth + f"- {c.type!r} {c.value!r} [{c.start}:{c.end}]")
        out.append(dump(c, depth + 1))
    return "\n".join(x for x in out if x)
