"""
Harness prelude.  Import this FIRST in every harness file:

    import sys; sys.path.insert(0, "/verif")
    from vlib import prelude  # noqa

* puts /repo/src first on sys.path (the harness always runs the current working tree);
* when VERIF_SYMBOLIC=1 (set by the runner for CrossHair processes): installs the
  stdlib-re adapter as ``sys.modules["regex"]`` before multidecoder is imported and
  applies the CrossHair extension pack (vlib/chx);
* otherwise (replay, cross-checks, plain execution): does nothing else, so the real
  ``regex`` extension and the real C functions are used.
"""
import os
import sys

REPO_SRC = os.environ.get("VERIF_REPO_SRC", "/repo/src")
if sys.path[0] != REPO_SRC:
    sys.path.insert(0, REPO_SRC)

_H = os.path.join(os.path.dirname(os.path.dirname(os.path.abspath(__file__))), "harness")
if _H not in sys.path:
    sys.path.append(_H)

SYMBOLIC = os.environ.get("VERIF_SYMBOLIC") == "1"

if SYMBOLIC:
    if "multidecoder" in sys.modules:
        raise RuntimeError("prelude must be imported before multidecoder")
    from vlib import reshim

    sys.modules["regex"] = reshim
    import crosshair.core_and_libs  # noqa: F401  (registers the stock patches first)
    from vlib.chx import models, rematch

    rematch.install()
    models.install()

    # CrossHair randomly "prematurely realises" integer arguments as a bug-finding heuristic
    # (a parallel branch: exhausting the symbolic branch alone already confirms the node).
    # For exhaustive checking those branches are wasted paths, so they are switched off.
    import crosshair.statespace as _ss0

    _orig_fork_parallel = _ss0.StateSpace.fork_parallel

    def _fork_parallel(self, false_probability, desc=""):
        # "premature realize <arg>": concretise an argument early; "shortcircuit <fn>": replace a call to an annotated
        # function by an arbitrary value of its return type and reconcile later.  Both are parallel alternatives to
        # the plain symbolic execution, which alone already covers the node.
        if isinstance(desc, str) and (desc.startswith("premature realize") or desc.startswith("shortcircuit")):
            return False
        return _orig_fork_parallel(self, false_probability, desc)

    _ss0.StateSpace.fork_parallel = _fork_parallel

    # ---- statistics for the evidence file (paths, solver queries, solver time) ----
    _stats_file = os.environ.get("VERIF_STATS_FILE")
    if _stats_file:
        import atexit
        import json
        import time

        import crosshair.statespace as _ss

        _STATS = {"paths": 0, "solver_queries": 0, "solver_s": 0.0, "solver_unknown": 0}
        try:
            _stats_fh = open(_stats_file, "w")  # opened now: CrossHair's audit wall blocks opens later
        except Exception:
            _stats_fh = None
        _orig_is_sat = _ss.solver_is_sat
        _orig_init = _ss.StateSpace.__init__

        def _is_sat(solver, *exprs):
            t0 = time.perf_counter()
            try:
                return _orig_is_sat(solver, *exprs)
            except _ss.UnknownSatisfiability:
                _STATS["solver_unknown"] += 1
                raise
            finally:
                _STATS["solver_queries"] += 1
                _STATS["solver_s"] += time.perf_counter() - t0

        def _init(self, *a, **kw):
            _STATS["paths"] += 1
            return _orig_init(self, *a, **kw)

        _ss.solver_is_sat = _is_sat
        _ss.StateSpace.__init__ = _init

        def _dump():
            from vlib import hx as _hx

            _STATS["symbolic_fail_calls"] = _hx.SYMBOLIC_FAILS[0]
            _STATS["regex_forks"] = rematch.STATS["forks"]
            _STATS["regex_cached"] = rematch.STATS["cached"]
            _STATS["solver_s"] = round(_STATS["solver_s"], 3)
            try:
                if _stats_fh is not None:
                    json.dump(_STATS, _stats_fh)
                    _stats_fh.close()
            except Exception:
                pass

        atexit.register(_dump)
