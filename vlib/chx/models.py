"""
Symbolic versions of bytes predicates/splitters that CrossHair 0.0.110 realises, and
models of the C-level functions Multidecoder calls on decoder arguments.

Policy: every model has a *fast path* that stays symbolic when the (forked) shape
condition holds and otherwise *falls back to realising the arguments and calling
the real CPython function* -- so a model can be slow, never wrong about a shape it
does not understand.  Each fast path is compared with CPython by
vlib/chx/selftest.py (exhaustively over small domains).

Nothing here is specific to Multidecoder.
"""
from __future__ import annotations

import binascii
import builtins
import socket
import urllib.parse
from typing import Any, List

import z3  # type: ignore

import crosshair.libimpl.builtinslib as B
from crosshair import core as _core
from crosshair.core import deep_realize, realize, register_opcode_patch
from crosshair.libimpl.builtinslib import (
    BytesLike,
    LazyIntSymbolicStr,
    SymbolicBytes,
    SymbolicInt,
)
from crosshair.opcode_intercept import CONTAINS_OP
from crosshair.statespace import context_statespace
from crosshair.tracers import (
    NoTracing,
    ResumedTracing,
    TracingModule,
    frame_stack_read,
    frame_stack_write,
)
from crosshair.util import CrossHairValue

_MISSING = B._MISSING

# --------------------------------------------------------------------------------------
# helpers on (possibly symbolic) byte values; all are written branch-free so that a
# whole-string predicate is ONE fork, not one per byte.


def _is_digit(b):
    return (48 <= b) & (b <= 57)


def _is_upper(b):
    return (65 <= b) & (b <= 90)


def _is_lower(b):
    return (97 <= b) & (b <= 122)


def _is_alpha(b):
    return _is_upper(b) | _is_lower(b)


def _is_alnum(b):
    return _is_digit(b) | _is_alpha(b)


def _is_space(b):
    return ((9 <= b) & (b <= 13)) | (b == 32)


def _is_hex(b):
    return _is_digit(b) | ((65 <= b) & (b <= 70)) | ((97 <= b) & (b <= 102))


def _hex_val(b):
    # value of a byte already known to be a hex digit (branch-free)
    return b - 48 - 7 * (b >= 65) - 32 * (b >= 97)


def _all(exprs):
    acc: Any = True
    for e in exprs:
        acc = acc & e
    return acc


def _any(exprs):
    acc: Any = False
    for e in exprs:
        acc = acc | e
    return acc


# --------------------------------------------------------------------------------------
# BytesLike predicates and splitters


def _b_isalnum(self):
    pts = list(self._ch_codepoints)
    if not pts:
        return False
    return bool(_all(_is_alnum(b) for b in pts))


def _b_isalpha(self):
    pts = list(self._ch_codepoints)
    if not pts:
        return False
    return bool(_all(_is_alpha(b) for b in pts))


def _b_isdigit(self):
    pts = list(self._ch_codepoints)
    if not pts:
        return False
    return bool(_all(_is_digit(b) for b in pts))


def _b_isspace(self):
    pts = list(self._ch_codepoints)
    if not pts:
        return False
    return bool(_all(_is_space(b) for b in pts))


def _b_isascii(self):
    return bool(_all(b < 128 for b in self._ch_codepoints))


def _not(x):
    return x == False  # noqa: E712  (no type test: isinstance() is patched under CrossHair)


def _b_isupper(self):
    pts = list(self._ch_codepoints)
    if not pts:
        return False
    return bool(_any(_is_upper(b) for b in pts) & _not(_any(_is_lower(b) for b in pts)))


def _b_islower(self):
    pts = list(self._ch_codepoints)
    if not pts:
        return False
    return bool(_any(_is_lower(b) for b in pts) & _not(_any(_is_upper(b) for b in pts)))


def _b_contains(self, item):
    if isinstance(item, int) or isinstance(item, SymbolicInt):
        if bool((item < 0) | (item > 255)):
            raise ValueError("byte must be in range(0, 256)")
        return bool(_any(b == item for b in self._ch_codepoints))
    return self.find(item) != -1


def ws_split_pts(pts: list, maxsplit: int, from_right: bool) -> list:
    """bytes.split(None, maxsplit) / rsplit on a list of byte values."""
    pts = list(pts)
    if from_right:
        pts = pts[::-1]
    out: List[list] = []
    cur: list = []
    i = 0
    n = len(pts)
    while i < n:
        b = pts[i]
        if _is_space(b):
            if cur:
                out.append(cur)
                cur = []
            i += 1
            continue
        if not cur and maxsplit >= 0 and len(out) >= maxsplit:
            out.append(pts[i:])  # remainder, inner and trailing whitespace kept
            cur = []
            break
        cur.append(b)
        i += 1
    if cur:
        out.append(cur)
    if from_right:
        out = [p[::-1] for p in out][::-1]
    return out


def _ws_split(self, maxsplit: int, from_right: bool) -> list:
    return [self._ch_make(p) for p in ws_split_pts(self._ch_codepoints, maxsplit, from_right)]


def _b_split(self, sep=None, maxsplit=-1):
    maxsplit = realize(maxsplit)
    if sep is None:
        return _ws_split(self, maxsplit, False)
    seppoints = self._ch_operand_points(sep)
    if len(seppoints) == 0:
        raise ValueError("empty separator")
    out = []
    rest = self
    while maxsplit < 0 or len(out) < maxsplit:
        head, mid, tail = rest.partition(sep)
        if len(mid) == 0:
            break
        out.append(head)
        rest = tail
    out.append(rest)
    return out


def _b_rsplit(self, sep=None, maxsplit=-1):
    maxsplit = realize(maxsplit)
    if sep is None:
        return _ws_split(self, maxsplit, True)
    seppoints = self._ch_operand_points(sep)
    if len(seppoints) == 0:
        raise ValueError("empty separator")
    out = []
    rest = self
    while maxsplit < 0 or len(out) < maxsplit:
        head, mid, tail = rest.rpartition(sep)
        if len(mid) == 0:
            break
        out.append(tail)
        rest = head
    out.append(rest)
    return out[::-1]


def splitlines_pts(pts: list, keepends: bool) -> list:
    pts = list(pts)
    out = []
    cur: list = []
    i = 0
    n = len(pts)
    while i < n:
        b = pts[i]
        if b == 10:
            out.append(cur + ([b] if keepends else []))
            cur = []
            i += 1
        elif b == 13:
            if i + 1 < n and pts[i + 1] == 10:
                out.append(cur + ([13, 10] if keepends else []))
                i += 2
            else:
                out.append(cur + ([13] if keepends else []))
                i += 1
            cur = []
        else:
            cur.append(b)
            i += 1
    if cur:
        out.append(cur)
    return out


def _b_splitlines(self, keepends=False):
    return [self._ch_make(p) for p in splitlines_pts(self._ch_codepoints, realize(keepends))]


def _b_join(self, seq):
    items = list(seq)
    acc = self[:0]
    for idx, item in enumerate(items):
        if idx:
            acc = acc + self
        acc = acc + item
    return acc


_orig_bytes_decode = SymbolicBytes.decode


def _utf16_units(pts: list):
    return [(pts[i], pts[i + 1]) for i in range(0, len(pts) - 1, 2)]


def utf16_fast_pts(pts: list, err: str):
    """Code points of pts.decode('utf-16', err) on the fast path, else None."""
    pts = list(pts)
    odd = len(pts) % 2 == 1
    units = _utf16_units(pts)
    if odd and err == "strict":
        return None
    if not units:
        return []
    no_surr = _all(((hi < 0xD8) | (hi > 0xDF)) for (_lo, hi) in units)
    lo0, hi0 = units[0]
    no_bom = _not(((lo0 == 0xFF) & (hi0 == 0xFE)) | ((lo0 == 0xFE) & (hi0 == 0xFF)))
    if bool(no_surr & no_bom):
        return [lo + 256 * hi for (lo, hi) in units]
    return None


def _b_decode(self, encoding="utf-8", errors="strict"):
    enc = realize(encoding)
    err = realize(errors)
    norm = enc.lower().replace("_", "-") if isinstance(enc, str) else enc
    if norm in ("utf-16", "utf16") and err in ("strict", "ignore"):
        cps = utf16_fast_pts(self._ch_codepoints, err)
        if cps is not None:
            if not cps:
                return ""
            with NoTracing():
                return LazyIntSymbolicStr(cps)
    return _orig_bytes_decode(self, encoding, errors)


# --------------------------------------------------------------------------------------
# str.isupper / str.islower for strings of code points < 256 (chr(byte).isupper() idiom).
# The tables are computed from CPython itself.


def _ranges(pred):
    out, start = [], None
    for c in range(257):
        ok = c < 256 and pred(chr(c))
        if ok and start is None:
            start = c
        if not ok and start is not None:
            out.append((start, c - 1))
            start = None
    return out


_L1_UPPER = _ranges(str.isupper)
_L1_LOWER = _ranges(str.islower)


def _in_ranges(c, ranges):
    return _any(((lo <= c) & (c <= hi)) for lo, hi in ranges)


def latin1_isupper_pts(pts):
    return _any(_in_ranges(c, _L1_UPPER) for c in pts) & _not(_any(_in_ranges(c, _L1_LOWER) for c in pts))


def latin1_islower_pts(pts):
    return _any(_in_ranges(c, _L1_LOWER) for c in pts) & _not(_any(_in_ranges(c, _L1_UPPER) for c in pts))


_orig_str_isupper = LazyIntSymbolicStr.isupper
_orig_str_islower = LazyIntSymbolicStr.islower


def _s_isupper(self):
    pts = list(self._codepoints)
    if 0 < len(pts) <= 8 and bool(_all((0 <= c) & (c < 256) for c in pts)):
        return bool(latin1_isupper_pts(pts))
    return _orig_str_isupper(self)


def _s_islower(self):
    pts = list(self._codepoints)
    if 0 < len(pts) <= 8 and bool(_all((0 <= c) & (c < 256) for c in pts)):
        return bool(latin1_islower_pts(pts))
    return _orig_str_islower(self)


# --------------------------------------------------------------------------------------
# str.encode() to UTF-8 (strict): CrossHair's codec does not reject surrogate code points.

_orig_str_encode = LazyIntSymbolicStr.encode


def utf8_pts(pts):
    """UTF-8 bytes of code points known not to be surrogates (forks on the length class)"""
    out = []
    for cp in pts:
        if cp < 0x80:
            out.append(cp)
        elif cp < 0x800:
            out += [0xC0 + cp // 64, 0x80 + cp % 64]
        elif cp < 0x10000:
            out += [0xE0 + cp // 4096, 0x80 + (cp // 64) % 64, 0x80 + cp % 64]
        else:
            out += [0xF0 + cp // 262144, 0x80 + (cp // 4096) % 64, 0x80 + (cp // 64) % 64, 0x80 + cp % 64]
    return out


def _s_encode(self, encoding="utf-8", errors="strict"):
    enc = realize(encoding)
    err = realize(errors)
    norm = enc.lower().replace("_", "-") if isinstance(enc, str) else enc
    if norm in ("utf-8", "utf8") and err == "strict":
        pts = list(self._codepoints)
        if len(pts) <= 64:
            if bool(_any(((0xD800 <= c) & (c <= 0xDFFF)) for c in pts)):
                # raise what CPython raises WITHOUT realising the string (realising would pin one concrete surrogate
                # per path and make the solver enumerate all 2048 of them); only the exception type is observable
                # to the code under test
                raise UnicodeEncodeError("utf-8", "\ud800", 0, 1, "surrogates not allowed")
            out = utf8_pts(pts)
            with NoTracing():
                return SymbolicBytes(out)
    return _orig_str_encode(self, encoding, errors)


# --------------------------------------------------------------------------------------
# int(): bytes / str with base 10 or 16, digits only (anything else -> real int())

_orig_int = None


def _digits_value(pts, base):
    acc: Any = 0
    for b in pts:
        acc = acc * base + (b - 48 if base == 10 else _hex_val(b))
    return acc


def _int(val: Any = 0, base=_MISSING):
    pts = None
    with NoTracing():
        if isinstance(val, SymbolicInt):
            if base is not _MISSING:
                raise TypeError("int() can't convert non-string with explicit base")
            return val
        if isinstance(val, BytesLike):
            pts = val._ch_codepoints
        elif isinstance(val, LazyIntSymbolicStr):
            pts = val._codepoints
        b = 10 if base is _MISSING else realize(base)
    if pts is not None and b in (10, 16):
        pts = list(pts)
        if 0 < len(pts) <= 40:
            ok = _all(_is_digit(c) for c in pts) if b == 10 else _all(_is_hex(c) for c in pts)
            if bool(ok):
                return _digits_value(pts, b)
    # anything else: realise and call the real int() (never re-enter a patched int)
    with NoTracing():
        rv = deep_realize(val)
        return int(rv) if base is _MISSING else int(rv, deep_realize(base))


# --------------------------------------------------------------------------------------
# XOR of ints: symbolic when both operands fit 16 bits, else the stock (realising) path.

_XOR_BITS = 16


def xor_expr(av, bv):
    """z3 Int term for av ^ bv, valid when both are in [0, 2**_XOR_BITS)."""
    return z3.BV2Int(z3.Int2BV(av, _XOR_BITS) ^ z3.Int2BV(bv, _XOR_BITS))


def _sym_xor(a, b):
    with NoTracing():
        if not (isinstance(a, SymbolicInt) or isinstance(b, SymbolicInt)):
            return NotImplemented
        if isinstance(a, bool) or isinstance(b, bool):
            return realize(a) ^ realize(b)
        if not isinstance(a, (int, SymbolicInt)) or not isinstance(b, (int, SymbolicInt)):
            return NotImplemented
        space = context_statespace()
        av = SymbolicInt._coerce_to_smt_sort(a)
        bv = SymbolicInt._coerce_to_smt_sort(b)
        lim = 1 << _XOR_BITS
        if space.smt_fork(z3.And(av >= 0, av < lim, bv >= 0, bv < lim), probability_true=0.95):
            return SymbolicInt(xor_expr(av, bv))
        return realize(a) ^ realize(b)


def _int_xor(self, other):
    return _sym_xor(self, other)


def _int_rxor(self, other):
    return _sym_xor(other, self)


# --------------------------------------------------------------------------------------
# bytes(iterable of ints): CrossHair builds a symbolic bytes object without the range check
# CPython performs ("bytes must be in range(0, 256)").

_orig_bytes_ctor = None


def _bytes_ctor(*a):
    ret = _orig_bytes_ctor(*a)
    sym = None
    with NoTracing():
        # (tracing off: type()/isinstance() tell the truth about symbolic values here)
        if len(a) == 1 and isinstance(ret, SymbolicBytes) and not isinstance(a[0], BytesLike):
            inner = ret.inner
            if isinstance(inner, (list, tuple)):
                for x in inner:
                    if type(x) is int and not 0 <= x <= 255:
                        raise ValueError("bytes must be in range(0, 256)")
                sym = [x for x in inner if type(x) is not int]
    if sym:
        if bool(_any(((x < 0) | (x > 255)) for x in sym)):
            raise ValueError("bytes must be in range(0, 256)")
    return ret


# --------------------------------------------------------------------------------------
# binascii.unhexlify


def unhex_pts(pts: list) -> list:
    pts = list(pts)
    if len(pts) % 2:
        raise binascii.Error("Odd-length string")
    if not bool(_all(_is_hex(c) for c in pts)):
        raise binascii.Error("Non-hexadecimal digit found")
    return [_hex_val(pts[i]) * 16 + _hex_val(pts[i + 1]) for i in range(0, len(pts), 2)]


def _unhexlify(data):
    with NoTracing():
        sym = isinstance(data, BytesLike)
    if not sym:
        with NoTracing():
            return binascii.unhexlify(deep_realize(data))
    out = unhex_pts(data._ch_codepoints)
    with NoTracing():
        return SymbolicBytes(out)


# --------------------------------------------------------------------------------------
# binascii.a2b_base64 (non-strict mode) for inputs of the shape  alphabet* '='{0,2}
# -- the only shape the decoders' regexes let through.  Branch-free sextet values.


def _is_b64(c):
    return _is_alnum(c) | (c == 43) | (c == 47)


def _b64_val(c):
    # value of a byte already known to be in the base64 alphabet
    return (c - 65) * _is_upper(c) + (c - 71) * _is_lower(c) + (c + 4) * _is_digit(c) + 62 * (c == 43) + 63 * (c == 47)


def b64_fast_pts(pts: list):
    """-> list of byte values, or raises binascii.Error, or None when the input is not of the
    fast-path shape (then the caller realises and uses CPython)."""
    pts = list(pts)
    n = len(pts)
    # number of trailing '=' (0..2), decided with at most two forks
    p = 0
    if n >= 1 and bool(pts[n - 1] == 61):
        p = 1
        if n >= 2 and bool(pts[n - 2] == 61):
            p = 2
    data = pts[: n - p]
    if not bool(_all(_is_b64(c) for c in data)):
        return None
    nd = len(data)
    r = nd % 4
    if r == 1:
        raise binascii.Error(
            "Invalid base64-encoded string: number of data characters (%d) cannot be 1 more than a multiple of 4" % nd
        )
    if (r == 2 and p < 2) or (r == 3 and p < 1):
        raise binascii.Error("Incorrect padding")
    vals = [_b64_val(c) for c in data]
    out = []
    for i in range(0, nd - r, 4):
        a, b, c, d = vals[i : i + 4]
        out += [a * 4 + b // 16, (b % 16) * 16 + c // 4, (c % 4) * 64 + d]
    if r == 2:
        a, b = vals[nd - 2 :]
        out += [a * 4 + b // 16]
    elif r == 3:
        a, b, c = vals[nd - 3 :]
        out += [a * 4 + b // 16, (b % 16) * 16 + c // 4]
    return out


_orig_a2b_base64 = None


def _a2b_base64(data, strict_mode: bool = False):
    with NoTracing():
        sym = isinstance(data, BytesLike)
        strict = realize(strict_mode)
    if sym and not strict:
        out = b64_fast_pts(data._ch_codepoints)
        if out is not None:
            with NoTracing():
                return SymbolicBytes(out)
    with NoTracing():
        return binascii.a2b_base64(deep_realize(data), strict_mode=strict)


# --------------------------------------------------------------------------------------
# urllib.parse.unquote_to_bytes


def unquote_pts(pts: list) -> list:
    pts = list(pts)
    out = []
    i = 0
    n = len(pts)
    while i < n:
        c = pts[i]
        if c == 37 and i + 2 < n and bool(_is_hex(pts[i + 1]) & _is_hex(pts[i + 2])):
            out.append(_hex_val(pts[i + 1]) * 16 + _hex_val(pts[i + 2]))
            i += 3
        else:
            out.append(c)
            i += 1
    return out


def _unquote_to_bytes(string):
    with NoTracing():
        sym = isinstance(string, BytesLike)
    if not sym:
        with NoTracing():
            return urllib.parse.unquote_to_bytes(deep_realize(string))
    out = unquote_pts(string._ch_codepoints)
    with NoTracing():
        return SymbolicBytes(out)


# --------------------------------------------------------------------------------------
# socket.inet_aton / inet_pton: C functions; arguments are realised (the solver then
# enumerates the concrete strings one by one -- keep the free bytes of IP skeletons few).


def _realizing(fn):
    def wrapper(*a, **kw):
        with NoTracing():
            a = [deep_realize(x) for x in a]
            kw = {k: deep_realize(v) for k, v in kw.items()}
            return fn(*a, **kw)

    wrapper.__name__ = getattr(fn, "__name__", "wrapped")
    return wrapper


# --------------------------------------------------------------------------------------
# `x in b"..."` / `sym_bytes in b"..."` with a concrete bytes container


class _BytesContainer:
    def __init__(self, container: bytes):
        self.container = container

    def __contains__(self, item):
        with NoTracing():
            is_int = isinstance(item, SymbolicInt)
            is_bytes = isinstance(item, BytesLike)
        if is_int:
            if bool((item < 0) | (item > 255)):
                raise ValueError("byte must be in range(0, 256)")
            return bool(_any(item == c for c in self.container))
        if is_bytes:
            with NoTracing():
                wrapped = SymbolicBytes(list(self.container))
            return wrapped.find(item) != -1
        return item in self.container


class BytesContainmentInterceptor(TracingModule):
    opcodes_wanted = frozenset([CONTAINS_OP])

    def trace_op(self, frame, codeobj, codenum):
        item = frame_stack_read(frame, -2)
        if not isinstance(item, CrossHairValue):
            return
        container = frame_stack_read(frame, -1)
        if type(container) is bytes:
            frame_stack_write(frame, -1, _BytesContainer(container))


# --------------------------------------------------------------------------------------


def install() -> None:
    global _orig_int
    regs = _core._PATCH_REGISTRATIONS
    if _orig_int is not None:
        return
    BytesLike.isalnum = _b_isalnum
    BytesLike.isalpha = _b_isalpha
    BytesLike.isdigit = _b_isdigit
    BytesLike.isspace = _b_isspace
    BytesLike.isascii = _b_isascii
    BytesLike.isupper = _b_isupper
    BytesLike.islower = _b_islower
    BytesLike.__contains__ = _b_contains
    BytesLike.split = _b_split
    BytesLike.rsplit = _b_rsplit
    BytesLike.splitlines = _b_splitlines
    BytesLike.join = _b_join
    SymbolicBytes.decode = _b_decode
    LazyIntSymbolicStr.isupper = _s_isupper
    LazyIntSymbolicStr.encode = _s_encode
    LazyIntSymbolicStr.islower = _s_islower
    global _orig_bytes_ctor
    _orig_bytes_ctor = regs[bytes]
    regs[bytes] = _bytes_ctor
    _orig_int = regs[int]
    regs[int] = _int
    SymbolicInt.__xor__ = _int_xor
    SymbolicInt.__rxor__ = _int_rxor
    regs[binascii.unhexlify] = _unhexlify
    regs[binascii.a2b_base64] = _a2b_base64
    regs[socket.inet_aton] = _realizing(socket.inet_aton)
    regs[socket.inet_pton] = _realizing(socket.inet_pton)
    regs[urllib.parse.unquote_to_bytes] = _unquote_to_bytes
    register_opcode_patch(BytesContainmentInterceptor())
