"""
A backtracking matcher for stdlib ``re`` *bytes* patterns over symbolic bytes.

Why not CrossHair's own (``crosshair.libimpl.relib._internal_match_patterns``,
crosshair-tool 0.0.110)?  Probing it against CPython showed that it is not a
faithful model of ``re`` on the patterns this repository uses:

* a repeat body is matched in isolation, so the matcher cannot backtrack *into*
  an iteration (``(?:a|ab)+c`` does not match ``abc``; ``BASE64_RE``, whose body
  starts with a greedy ``{4,}``, never reaches its 5 mandatory iterations on an
  unbroken blob);
* ``\\b`` at offset 0 / at the end always reports a boundary;
* a negative look-behind nearer to the start than its width fails the match;
* bytes patterns with IGNORECASE ranges raise TypeError; ``\\w \\d \\s \\b`` on
  bytes use the Unicode tables;
* ``search`` never tries ``pos == len``; ``finditer`` realises symbolic bytes;
  ``sub`` recurses on a slice (losing look-behind context).

This module implements the textbook continuation-passing backtracking matcher
over the ``re._parser`` tree, exploring alternatives in exactly sre's order
(alternation left to right, greedy repeats longest first, lazy shortest first,
group marks restored on backtracking, sre's rule for empty iterations).  The only
non-determinism is the *value* of a symbolic byte: each test "byte i in class C"
becomes ``space.smt_fork(<z3 range expression>)``, so one CrossHair path fixes the
class of every byte the matcher looked at, and within a path the run is an
ordinary deterministic match.  Decisions are cached per path.

On concrete bytes the module is never used (CPython ``re`` runs).  The self-test
(``vlib/chx/selftest.py``) drives this matcher with *concrete* values wrapped as
symbolic containers and compares spans and groups with ``re`` and with the
third-party ``regex`` module on the repository's patterns.

Nothing here is specific to Multidecoder.
"""
from __future__ import annotations

import re
import sys
from typing import Any, Callable, List, Optional

import re._parser as re_parser  # type: ignore
import z3  # type: ignore

import crosshair.libimpl.relib as R
from crosshair import core as _core
from crosshair.core import realize
from crosshair.libimpl.builtinslib import BytesLike, SymbolicInt
from crosshair.statespace import context_statespace
from crosshair.tracers import NoTracing, ResumedTracing
from crosshair.unicode_categories import CharMask

sys.setrecursionlimit(max(sys.getrecursionlimit(), 20000))

C = re_parser
ReUnhandled = R.ReUnhandled
_Match = R._Match

_ALL = CharMask([(0, 256)])
_DIGIT = CharMask([(48, 58)])
_SPACE = CharMask([(9, 14), 32])
_WORD = CharMask([(48, 58), (65, 91), 95, (97, 123)])
_NL = CharMask([10])

STATS = {"forks": 0, "cached": 0, "concrete": 0, "match_calls": 0}


def _inv(mask: CharMask) -> CharMask:
    return _ALL.subtract(mask)


def _fold(lo: int, hi: int) -> CharMask:
    """ASCII case closure of the byte range lo..hi (inclusive)."""
    out = CharMask([(lo, hi + 1)])
    a, b = max(lo, 65), min(hi, 90)
    if a <= b:
        out = out.union(CharMask([(a + 32, b + 33)]))
    a, b = max(lo, 97), min(hi, 122)
    if a <= b:
        out = out.union(CharMask([(a - 32, b - 31)]))
    return out


def bytes_char_mask(parsed, flags: int) -> Optional[CharMask]:
    """CharMask (over 0..255) of a single-character node of a *bytes* pattern, else None."""
    op, arg = parsed
    icase = bool(re.IGNORECASE & flags)
    if op in (C.LITERAL, C.NOT_LITERAL):
        if arg > 255:
            raise ReUnhandled("non-byte literal")
        ret = _fold(arg, arg) if icase else CharMask([arg])
        if op is C.NOT_LITERAL:
            ret = _inv(ret)
        return ret
    if op is C.RANGE:
        lo, hi = arg
        return _fold(lo, hi) if icase else CharMask([(lo, hi + 1)])
    if op is C.IN:
        ret = CharMask([])
        negate = bool(arg) and arg[0][0] is C.NEGATE
        terms = arg[1:] if negate else arg
        for term in terms:
            sub = bytes_char_mask(term, flags)
            if sub is None:
                raise ReUnhandled("IN contains non-single-char expression")
            ret = ret.union(sub)
        return _inv(ret) if negate else ret
    if op is C.CATEGORY:
        if arg == C.CATEGORY_DIGIT:
            return _DIGIT
        if arg == C.CATEGORY_NOT_DIGIT:
            return _inv(_DIGIT)
        if arg == C.CATEGORY_SPACE:
            return _SPACE
        if arg == C.CATEGORY_NOT_SPACE:
            return _inv(_SPACE)
        if arg == C.CATEGORY_WORD:
            return _WORD
        if arg == C.CATEGORY_NOT_WORD:
            return _inv(_WORD)
        raise ReUnhandled("Unsupported category: ", arg)
    if op is C.ANY and arg is None:
        return _ALL if re.DOTALL & flags else _inv(_NL)
    return None


class _CompiledMask:
    __slots__ = ("mask", "table", "key")

    def __init__(self, mask: CharMask):
        self.mask = mask
        self.table = bytes(1 if mask.covers(i) else 0 for i in range(256))
        self.key = self.table  # hashable identity of the byte set


_WORD_CM = _CompiledMask(_WORD)

# ---- compiled program -----------------------------------------------------------------
# Each parsed node is compiled (once per pattern) to a tuple whose first item is a small
# int opcode; sequences are python lists of those tuples.

O_CHAR, O_REPEAT, O_BRANCH, O_AT, O_LOOK, O_GROUP, O_SEQ = range(7)


def _compile_seq(items, flags) -> list:
    return [_compile_node(n, flags) for n in items]


def _compile_node(node, flags):
    op, arg = node
    mask = bytes_char_mask(node, flags)
    if mask is not None:
        return (O_CHAR, _CompiledMask(mask))
    if op in (C.MIN_REPEAT, C.MAX_REPEAT):
        lo, hi, body = arg
        return (O_REPEAT, lo, hi, _compile_seq(body, flags), op is C.MAX_REPEAT)
    if op is C.BRANCH:
        if arg[0] is not None:
            raise ReUnhandled("branch arg")
        return (O_BRANCH, [_compile_seq(b, flags) for b in arg[1]])
    if op is C.AT:
        return (O_AT, arg)
    if op in (C.ASSERT, C.ASSERT_NOT):
        direction, sub = arg
        width = None
        if direction == -1:
            lo, hi = sub.getwidth()
            if lo != hi:
                raise re.error("look-behind requires fixed-width pattern")
            width = lo
        return (O_LOOK, op is C.ASSERT, direction, width, _compile_seq(sub, flags))
    if op is C.SUBPATTERN:
        groupnum, add_flags, del_flags, sub = arg
        newflags = (flags | add_flags) & ~del_flags
        body = _compile_seq(sub, newflags)
        if groupnum is None:
            return (O_SEQ, body)
        return (O_GROUP, groupnum, body)
    if op is C.POSSESSIVE_REPEAT or op is C.ATOMIC_GROUP or op is C.GROUPREF or op is C.GROUPREF_EXISTS:
        raise ReUnhandled(op)
    raise ReUnhandled(op)


_PROGRAMS: dict = {}


def program_for(pattern: bytes, flags: int):
    key = (pattern, flags)
    prog = _PROGRAMS.get(key)
    if prog is None:
        parsed = re_parser.parse(pattern, flags)
        # flags embedded in the pattern, e.g. (?i), are reported in parsed.state.flags
        eff = parsed.state.flags | flags
        prog = (_compile_seq(parsed, eff), eff, parsed.state.groups)
        _PROGRAMS[key] = prog
    return prog


# ---- per-path decision cache ---------------------------------------------------------------

_CACHE_SPACE: Any = None
_CACHE: dict = {}


def _path_cache(space) -> dict:
    global _CACHE_SPACE, _CACHE
    if _CACHE_SPACE is not space:
        _CACHE_SPACE = space
        _CACHE = {}
    return _CACHE


class _Ctx:
    __slots__ = ("chars", "n", "flags", "groups", "space", "cache", "multiline")

    def __init__(self, chars, flags, ngroups):
        self.chars = chars
        self.n = len(chars)
        self.flags = flags
        self.groups: List[Optional[tuple]] = [None] * ngroups
        self.space = None
        self.cache = None
        self.multiline = bool(flags & re.MULTILINE)

    def test(self, i: int, cm: _CompiledMask) -> bool:
        ch = self.chars[i]
        if isinstance(ch, int):
            STATS["concrete"] += 1
            return bool(cm.table[ch])
        if self.space is None:
            self.space = context_statespace()
            self.cache = _path_cache(self.space)
        var = ch.var if isinstance(ch, SymbolicInt) else SymbolicInt._coerce_to_smt_sort(ch)
        key = (var.get_id(), cm.key)
        got = self.cache.get(key)
        if got is not None:
            STATS["cached"] += 1
            return got[0]
        STATS["forks"] += 1
        res = bool(self.space.smt_fork(cm.mask.smt_matches(var)))
        self.cache[key] = (res, var)  # keep var alive so its id is not re-used
        return res

    def is_word(self, i: int) -> bool:
        if i < 0 or i >= self.n:
            return False
        return self.test(i, _WORD_CM)


def _m_seq(ctx: _Ctx, items: list, idx: int, pos: int, k: Callable[[int], bool]) -> bool:
    if idx == len(items):
        return k(pos)
    node = items[idx]
    op = node[0]
    if op == O_CHAR:
        # fast path: run of single characters without allocating closures
        n = ctx.n
        while True:
            if pos >= n or not ctx.test(pos, node[1]):
                return False
            pos += 1
            idx += 1
            if idx == len(items):
                return k(pos)
            node = items[idx]
            if node[0] != O_CHAR:
                break
        op = node[0]
    nxt = lambda p: _m_seq(ctx, items, idx + 1, p, k)  # noqa: E731
    if op == O_REPEAT:
        return _m_repeat(ctx, node, pos, nxt)
    if op == O_BRANCH:
        saved = list(ctx.groups)
        for alt in node[1]:
            if _m_seq(ctx, alt, 0, pos, nxt):
                return True
            ctx.groups[:] = saved
        return False
    if op == O_SEQ:
        return _m_seq(ctx, node[1], 0, pos, nxt)
    if op == O_GROUP:
        g = node[1]
        start = pos

        def close(p: int) -> bool:
            old = ctx.groups[g]
            ctx.groups[g] = (start, p)
            if nxt(p):
                return True
            ctx.groups[g] = old
            return False

        return _m_seq(ctx, node[2], 0, pos, close)
    if op == O_AT:
        return nxt(pos) if _at(ctx, node[1], pos) else False
    if op == O_LOOK:
        _, positive, direction, width, sub = node
        saved = list(ctx.groups)
        if direction == 1:
            ok = _m_seq(ctx, sub, 0, pos, lambda p: True)
        else:
            start = pos - width
            ok = start >= 0 and _m_seq(ctx, sub, 0, start, lambda p: p == pos)
        if ok != positive:
            ctx.groups[:] = saved
            return False
        if not positive:
            ctx.groups[:] = saved
        if nxt(pos):
            return True
        ctx.groups[:] = saved
        return False
    raise ReUnhandled(op)


def _m_repeat(ctx: _Ctx, node, pos: int, k: Callable[[int], bool]) -> bool:
    _, lo, hi, body, greedy = node
    unbounded = hi == C.MAXREPEAT
    single = len(body) == 1 and body[0][0] == O_CHAR

    if single:
        # sre's REPEAT_ONE / MIN_REPEAT_ONE: count characters, then try tails.
        cm = body[0][1]
        n = ctx.n
        if greedy:
            count = 0
            p = pos
            while (unbounded or count < hi) and p < n and ctx.test(p, cm):
                p += 1
                count += 1
            while count >= lo:
                if k(pos + count):
                    return True
                count -= 1
            return False
        count = 0
        p = pos
        while count < lo:
            if p >= n or not ctx.test(p, cm):
                return False
            p += 1
            count += 1
        while True:
            if k(p):
                return True
            if not (unbounded or count < hi):
                return False
            if p >= n or not ctx.test(p, cm):
                return False
            p += 1
            count += 1

    def rep(count: int, p: int, last_start: int) -> bool:
        saved = list(ctx.groups)
        if count < lo:
            if _m_seq(ctx, body, 0, p, lambda q: rep(count + 1, q, last_start)):
                return True
            ctx.groups[:] = saved
            return False
        can_more = (unbounded or count < hi) and p != last_start
        if greedy:
            if can_more:
                if _m_seq(ctx, body, 0, p, lambda q: rep(count + 1, q, p)):
                    return True
                ctx.groups[:] = saved
            return k(p)
        if k(p):
            return True
        ctx.groups[:] = saved
        if can_more:
            if _m_seq(ctx, body, 0, p, lambda q: rep(count + 1, q, p)):
                return True
            ctx.groups[:] = saved
        return False

    return rep(0, pos, -1)


def _at(ctx: _Ctx, arg, pos: int) -> bool:
    n = ctx.n
    if arg is C.AT_BEGINNING_STRING:
        return pos == 0
    if arg is C.AT_BEGINNING:
        if pos == 0:
            return True
        return ctx.multiline and ctx.test(pos - 1, _NL_CM)
    if arg is C.AT_END_STRING:
        return pos == n
    if arg is C.AT_END:
        if pos == n:
            return True
        if ctx.multiline or pos == n - 1:
            return ctx.test(pos, _NL_CM)
        return False
    if arg is C.AT_BOUNDARY:
        return ctx.is_word(pos - 1) != ctx.is_word(pos)
    if arg is C.AT_NON_BOUNDARY:
        if n == 0:
            return False  # CPython: \B does not match the empty string ... (3.12: it does not)
        return ctx.is_word(pos - 1) == ctx.is_word(pos)
    raise ReUnhandled(arg)


_NL_CM = _CompiledMask(_NL)


def match_at(pattern: bytes, flags: int, chars: list, pos: int, endpos: int, *, full=False, allow_empty=True):
    """Match at exactly `pos`; returns list of group spans (index 0 = whole) or None."""
    STATS["match_calls"] += 1
    prog, eff, ngroups = program_for(pattern, flags)
    view = chars if endpos >= len(chars) else chars[:endpos]
    ctx = _Ctx(view, eff, ngroups)
    result: List[Optional[tuple]] = []

    def done(p: int) -> bool:
        if full and p != ctx.n:
            return False
        if not allow_empty and p == pos:
            return False
        ctx.groups[0] = (pos, p)
        result[:] = ctx.groups
        return True

    if _m_seq(ctx, prog, 0, pos, done):
        return list(result)
    return None


# --------------------------------------------------------------------------------------
# Pattern method patches (only bytes patterns on BytesLike use the matcher above)

_ORIG = {}


def _is_sym_bytes(patt, string) -> bool:
    return isinstance(string, BytesLike) and isinstance(patt, re.Pattern) and isinstance(patt.pattern, bytes)


def _concrete(*vals) -> bool:
    from crosshair.util import CrossHairValue

    return not any(isinstance(v, CrossHairValue) for v in vals)


def _native(method, self, *args):
    """call the real re.Pattern method on concrete arguments without re-entering a patch"""
    with NoTracing():
        args = list(args)
        while args and args[-1] is None:
            args.pop()
        return method(self, *args)


def _chars_of(string) -> list:
    with ResumedTracing():
        n = realize(len(string))
        return [string[i] for i in range(n)]


class _BMatch(_Match):
    """relib's match object, with CPython's (-1, -1) convention for unmatched groups."""

    def span(self, group=0):
        g = self._groups[group]
        return (-1, -1) if g is None else g

    def start(self, group=0):
        return self.span(group)[0]

    def end(self, group=0):
        return self.span(group)[1]


def _mk(self, string, groups, pos, endpos):
    return _BMatch(list(groups), pos, endpos, self, string)


def _norm_pos(pos, endpos, strlen):
    pos, endpos, _ = slice(pos, endpos, 1).indices(strlen)
    return pos, endpos


def _search(self, string, pos=0, endpos=None):
    with NoTracing():
        if not _is_sym_bytes(self, string):
            pass
        else:
            try:
                chars = _chars_of(string)
                p, e = _norm_pos(realize(pos), realize(endpos), len(chars))
                while p <= e:
                    g = match_at(self.pattern, self.flags, chars, p, e)
                    if g is not None:
                        return _mk(self, string, g, p, e)
                    p += 1
                return None
            except ReUnhandled as ex:
                R.debug("Unsupported symbolic regex", self.pattern, ex)
    if _concrete(self, string, pos, endpos):
        return _native(re.Pattern.search, self, string, pos, endpos)
    return _ORIG["search"](self, string, pos, endpos)


def _match(self, string, pos=0, endpos=None):
    with NoTracing():
        if _is_sym_bytes(self, string):
            try:
                chars = _chars_of(string)
                p, e = _norm_pos(realize(pos), realize(endpos), len(chars))
                g = match_at(self.pattern, self.flags, chars, p, e)
                return None if g is None else _mk(self, string, g, p, e)
            except ReUnhandled as ex:
                R.debug("Unsupported symbolic regex", self.pattern, ex)
    if _concrete(self, string, pos, endpos):
        return _native(re.Pattern.match, self, string, pos, endpos)
    return _ORIG["match"](self, string, pos, endpos)


def _fullmatch(self, string, pos=0, endpos=None):
    with NoTracing():
        if _is_sym_bytes(self, string):
            try:
                chars = _chars_of(string)
                p, e = _norm_pos(realize(pos), realize(endpos), len(chars))
                g = match_at(self.pattern, self.flags, chars, p, e, full=True)
                return None if g is None else _mk(self, string, g, p, e)
            except ReUnhandled as ex:
                R.debug("Unsupported symbolic regex", self.pattern, ex)
    if _concrete(self, string, pos, endpos):
        return _native(re.Pattern.fullmatch, self, string, pos, endpos)
    return _ORIG["fullmatch"](self, string, pos, endpos)


def _finditer_scan(pattern, flags, chars, pos, endpos):
    """Exact emulation of CPython's pattern_finditer/scanner_search loop."""
    out = []
    p = pos
    must_advance = False
    while p <= endpos:
        # scanner_search: search from p; when must_advance, an empty match at p is rejected
        found = None
        q = p
        while q <= endpos:
            g = match_at(pattern, flags, chars, q, endpos, allow_empty=not (must_advance and q == p))
            if g is not None:
                found = g
                break
            q += 1
        if found is None:
            break
        out.append(found)
        s, e = found[0]
        must_advance = e == s
        p = e
    return out


def _finditer(self, string, pos=0, endpos=None):
    with NoTracing():
        if _is_sym_bytes(self, string):
            try:
                chars = _chars_of(string)
                p, e = _norm_pos(realize(pos), realize(endpos), len(chars))
                found = _finditer_scan(self.pattern, self.flags, chars, p, e)
                return iter([_mk(self, string, g, p, e) for g in found])
            except ReUnhandled as ex:
                R.debug("Unsupported symbolic regex", self.pattern, ex)
    if _concrete(self, string, pos, endpos):
        return _native(re.Pattern.finditer, self, string, pos, endpos)
    return _ORIG["finditer"](self, string, pos, endpos)


def _subn(self, repl, string, count=0):
    symbolic = False
    with NoTracing():
        if _is_sym_bytes(self, string):
            try:
                chars = _chars_of(string)
                found = _finditer_scan(self.pattern, self.flags, chars, 0, len(chars))
                matches = [_mk(self, string, g, 0, len(chars)) for g in found]
                symbolic = True
            except ReUnhandled as ex:
                R.debug("Unsupported symbolic regex", self.pattern, ex)
    if not symbolic:
        if _concrete(self, string, count) and (not callable(repl)) and _concrete(repl):
            with NoTracing():
                return re.Pattern.subn(self, repl, string, count)
        if _concrete(self, string, count) and callable(repl):
            # concrete string, python callback: run the real engine, the callback stays traced
            with NoTracing():
                matches = list(re.Pattern.finditer(self, string))
            if count:
                matches = matches[:count]
            pieces = string[:0]
            last = 0
            for m in matches:
                pieces = pieces + string[last : m.start()] + repl(m)
                last = m.end()
            return (pieces + string[last:], len(matches))
        return _ORIG["subn"](self, repl, string, count)
    count = realize(count)
    if count:
        matches = matches[:count]
    if callable(repl):
        replfn = repl
    else:
        # a replacement template is literal unless it contains a backslash (escapes / group references, which
        # sre processes with rules of its own): then everything is realised and the real engine runs
        has_backslash = False
        for c in repl:
            if c == 92:
                has_backslash = True
                break
        if has_backslash:
            with NoTracing():
                from crosshair.core import deep_realize as _dr

                return re.Pattern.subn(self, _dr(repl), _dr(string), count)
        replfn = lambda m: repl  # noqa: E731
    pieces = string[:0]
    last = 0
    for m in matches:
        pieces = pieces + string[last : m.start()] + replfn(m)
        last = m.end()
    pieces = pieces + string[last:]
    return (pieces, len(matches))


def _sub(self, repl, string, count=0):
    return _subn(self, repl, string, count)[0]


def install() -> None:
    regs = _core._PATCH_REGISTRATIONS
    if _ORIG:
        return
    _ORIG["search"] = regs[re.Pattern.search]
    _ORIG["match"] = regs[re.Pattern.match]
    _ORIG["fullmatch"] = regs[re.Pattern.fullmatch]
    _ORIG["finditer"] = regs[re.Pattern.finditer]
    _ORIG["subn"] = regs[re.Pattern.subn]
    regs[re.Pattern.search] = _search
    regs[re.Pattern.match] = _match
    regs[re.Pattern.fullmatch] = _fullmatch
    regs[re.Pattern.finditer] = _finditer
    regs[re.Pattern.sub] = _sub
    regs[re.Pattern.subn] = _subn
