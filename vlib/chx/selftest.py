"""
Self-test of the CrossHair extension pack against CPython (and the real ``regex``).
Run at the start of every check; a mismatch is a harness error (exit 3), never a
violation.  Everything here is deterministic.

  python -m vlib.chx.selftest [--full]
"""
from __future__ import annotations

import ast
import binascii
import glob
import importlib
import itertools
import pkgutil
import random
import re
import sys
import time
import urllib.parse

sys.path.insert(0, "/verif")
import os

REPO_SRC = os.environ.get("VERIF_REPO_SRC", "/repo/src")
sys.path.insert(0, REPO_SRC)

import regex  # the real one

from vlib.chx import models as M
from vlib.chx import rematch as RM

# representatives of every byte class the models distinguish
CLASS_BYTES = bytes(
    [0, 8, 9, 10, 11, 12, 13, 14, 31, 32, 33, 34, 37, 39, 43, 47, 48, 49, 57, 58, 64, 65, 70, 71, 90, 91, 94, 95, 96,
     97, 102, 103, 120, 122, 123, 127, 128, 0xD7, 0xD8, 0xDF, 0xE0, 0xFE, 0xFF]
)


class Fail(Exception):
    pass


def expect(cond, what):
    if not cond:
        raise Fail(what)


def test_predicates():
    n = 0
    for b in range(256):
        bb = bytes([b])
        expect(bool(M._is_alnum(b)) == bb.isalnum(), f"isalnum {b}")
        expect(bool(M._is_alpha(b)) == bb.isalpha(), f"isalpha {b}")
        expect(bool(M._is_digit(b)) == bb.isdigit(), f"isdigit {b}")
        expect(bool(M._is_space(b)) == bb.isspace(), f"isspace {b}")
        expect(bool(M._is_upper(b)) == bb.isupper(), f"isupper {b}")
        expect(bool(M._is_lower(b)) == bb.islower(), f"islower {b}")
        ishex = bb in b"0123456789abcdefABCDEF"
        expect(bool(M._is_hex(b)) == ishex, f"ishex {b}")
        if ishex:
            expect(M._hex_val(b) == int(bb, 16), f"hexval {b}")
        n += 8
    return n


class _FakeBytes:
    """Minimal stand-in exposing _ch_codepoints/_ch_make so the BytesLike methods can be
    run on concrete values without a CrossHair state space."""

    def __init__(self, pts):
        self.pts = list(pts)

    @property
    def _ch_codepoints(self):
        return self.pts

    def _ch_make(self, pts):
        return _FakeBytes(pts)

    def __bytes__(self):
        return bytes(self.pts)


def test_string_methods():
    n = 0
    alpha = CLASS_BYTES
    cases = [bytes(t) for k in range(0, 3) for t in itertools.product(alpha, repeat=k)]
    rnd = random.Random(7)
    cases += [bytes(rnd.choice(b" \t\r\nab%4Af.:/\\^\"'") for _ in range(rnd.randint(3, 9))) for _ in range(3000)]
    for s in cases:
        f = _FakeBytes(s)
        expect(M._b_isupper(f) == s.isupper(), f"isupper {s!r}")
        expect(M._b_islower(f) == s.islower(), f"islower {s!r}")
        expect(M._b_isalnum(f) == s.isalnum(), f"isalnum {s!r}")
        expect(M._b_isdigit(f) == s.isdigit(), f"isdigit {s!r}")
        expect(M._b_isspace(f) == s.isspace(), f"isspace {s!r}")
        expect(M._b_isalpha(f) == s.isalpha(), f"isalpha {s!r}")
        expect(M._b_isascii(f) == s.isascii(), f"isascii {s!r}")
        for ms in (-1, 0, 1, 2):
            got = [bytes(p) for p in M.ws_split_pts(list(s), ms, False)]
            expect(got == s.split(None, ms), f"split {s!r} {ms}: {got}")
            got = [bytes(p) for p in M.ws_split_pts(list(s), ms, True)]
            expect(got == s.rsplit(None, ms), f"rsplit {s!r} {ms}: {got}")
        for ke in (False, True):
            got = [bytes(p) for p in M.splitlines_pts(list(s), ke)]
            expect(got == s.splitlines(ke), f"splitlines {s!r} {ke}: {got}")
        got = bytes(M.unquote_pts(list(s)))
        expect(got == urllib.parse.unquote_to_bytes(s), f"unquote {s!r}: {got!r}")
        try:
            want = binascii.unhexlify(s)
        except binascii.Error:
            want = None
        try:
            got2 = bytes(M.unhex_pts(list(s)))
        except binascii.Error:
            got2 = None
        expect(got2 == want, f"unhexlify {s!r}")
        n += 20
    return n


def test_unquote_more():
    n = 0
    alpha = b"%4aAgG/"
    for k in range(0, 6):
        for t in itertools.product(alpha, repeat=k):
            s = bytes(t)
            got = bytes(M.unquote_pts(list(s)))
            expect(got == urllib.parse.unquote_to_bytes(s), f"unquote {s!r}: {got!r}")
            n += 1
    return n


def test_int():
    n = 0
    for k in range(1, 4):
        for t in itertools.product(b"0179", repeat=k):
            s = bytes(t)
            expect(M._digits_value(list(s), 10) == int(s), f"int10 {s!r}")
            n += 1
        for t in itertools.product(b"09afAF", repeat=k):
            s = bytes(t)
            expect(M._digits_value(list(s), 16) == int(s, 16), f"int16 {s!r}")
            n += 1
    return n


def test_utf16():
    n = 0
    alpha = CLASS_BYTES
    cases = [bytes(t) for k in range(0, 4) for t in itertools.product(alpha[::3], repeat=k)]
    cases += [bytes(t) for t in itertools.product([0, 0x41, 0xD8, 0xDC, 0xFE, 0xFF], repeat=4)]
    for s in cases:
        for err in ("strict", "ignore"):
            cps = M.utf16_fast_pts(list(s), err)
            if cps is None:
                continue
            try:
                want = s.decode("utf-16", err)
            except UnicodeDecodeError:
                raise Fail(f"utf16 fast path accepted {s!r} ({err}) but CPython raises")
            expect("".join(map(chr, cps)) == want, f"utf16 {s!r} {err}")
            n += 1
    return n


def test_latin1_case():
    n = 0
    for a in range(256):
        expect(bool(M.latin1_isupper_pts([a])) == chr(a).isupper(), f"l1 upper {a}")
        expect(bool(M.latin1_islower_pts([a])) == chr(a).islower(), f"l1 lower {a}")
        for b in (0x41, 0x61, 0x31, 0xAA, 0xC0, 0xDF, 0xE0, 0xF7, 0xFF, 0xB5):
            s2 = chr(a) + chr(b)
            expect(bool(M.latin1_isupper_pts([a, b])) == s2.isupper(), f"l1 upper {a},{b}")
            expect(bool(M.latin1_islower_pts([a, b])) == s2.islower(), f"l1 lower {a},{b}")
            n += 2
    return n


def test_b64():
    n = 0
    alpha = b"AZaz09+/="
    cases = [bytes(t) for k in range(0, 6) for t in itertools.product(alpha, repeat=k)]
    rnd = random.Random(5)
    full = b"ABCDEFGHIJKLMNOPQRSTUVWXYZabcdefghijklmnopqrstuvwxyz0123456789+/"
    for _ in range(3000):
        k = rnd.randint(0, 12)
        cases.append(bytes(rnd.choice(full) for _ in range(k)) + b"=" * rnd.randint(0, 2))
    cases += [b"AB!C", b"A=BC", b"AB==CD", b"=AAA"]
    for s_ in cases:
        try:
            want = binascii.a2b_base64(s_)
        except binascii.Error:
            want = "ERR"
        try:
            got = M.b64_fast_pts(list(s_))
            got = None if got is None else bytes(got)
        except binascii.Error:
            got = "ERR"
        if got is None:
            continue  # not fast-path shape: the model defers to CPython
        expect(got == want, f"a2b_base64 {s_!r}: {got!r} vs {want!r}")
        n += 1
    return n


def test_utf8():
    n = 0
    for cp in list(range(0, 0x900)) + [0xD7FF, 0xE000, 0xFFFF, 0x10000, 0x10FFFF, 99999]:
        expect(bytes(M.utf8_pts([cp])) == chr(cp).encode(), f"utf8 {cp}")
        n += 1
    return n


def test_xor():
    import z3

    n = 0
    av, bv = z3.Int("a"), z3.Int("b")
    expr = M.xor_expr(av, bv)
    rnd = random.Random(3)
    pairs = [(rnd.randrange(1 << 16), rnd.randrange(1 << 16)) for _ in range(200)] + [(0, 0), (255, 999), (65535, 1)]
    for a, b in pairs:
        val = z3.simplify(z3.substitute(expr, (av, z3.IntVal(a)), (bv, z3.IntVal(b))))
        expect(val.as_long() == a ^ b, f"xor {a} {b}")
        n += 1
    return n


# ---- matcher -------------------------------------------------------------------------------


def repo_patterns():
    import multidecoder.decoders as D
    import multidecoder.xor_helper as X

    pats = {}
    mods = [importlib.import_module("multidecoder.decoders." + m.name) for m in pkgutil.iter_modules(D.__path__)] + [X]
    for m in mods:
        for k, v in vars(m).items():
            if isinstance(v, bytes) and (k.endswith("_RE") or "RE" in k.split("_")):
                pats[m.__name__.split(".")[-1] + "." + k] = v
    # patterns written inline in the sources: collected from the AST so that an edit is picked up
    src_root = os.path.join(REPO_SRC, "multidecoder")
    for f in glob.glob(os.path.join(src_root, "**", "*.py"), recursive=True):
        try:
            tree = ast.parse(open(f).read())
        except SyntaxError:
            continue
        for node in ast.walk(tree):
            if (
                isinstance(node, ast.Call)
                and isinstance(node.func, ast.Attribute)
                and isinstance(node.func.value, ast.Name)
                and node.func.value.id == "re"
                and node.args
                and isinstance(node.args[0], ast.Constant)
                and isinstance(node.args[0].value, bytes)
            ):
                p = node.args[0].value
                if p.startswith(b"(?r)"):
                    p = b"(?:" + p[4:] + b")\\Z"
                pats[f"{os.path.basename(f)}:{node.lineno}"] = p
    return pats


GENERIC_PATTERNS = [
    rb"(?:a|ab)+c", rb"(a*)*b", rb"(a|b)*?c", rb"a{2,3}?b", rb"(?<!x)ab", rb"(?<=x)ab", rb"\bab\b", rb"\Bab\B",
    rb"^ab$", rb"(?m)^ab$", rb"ab\Z", rb"(a)|(b)", rb"(?:(a)|b)+", rb"(a+)(a*)", rb"x*", rb"(?i)[a-c]x", rb"(?s).b",
    rb".b", rb"(?=a)a|b", rb"(?!a).", rb"(a?)*?b", rb"(?:a*)*", rb"(\w+)\s(\w+)", rb"[^a]b", rb"\d\D\s\S\w\W", rb"$",
    rb"a$", rb"(?i)AB", rb"(ab|a)(bc|c)?", rb"((a)|b)+",
]


def test_corpus():
    out = set()
    for f in glob.glob(os.path.join(os.path.dirname(REPO_SRC), "tests", "**", "*.py"), recursive=True):
        try:
            t = ast.parse(open(f).read())
        except SyntaxError:
            continue
        for nd in ast.walk(t):
            if isinstance(nd, ast.Constant):
                if isinstance(nd.value, bytes):
                    out.add(nd.value)
                elif isinstance(nd.value, str):
                    try:
                        out.add(nd.value.encode("latin-1"))
                    except Exception:
                        pass
    return sorted(x for x in out if len(x) <= 300)


def _spans(m):
    return tuple(m.span(g) for g in range(0, m.re.groups + 1))


def _mine(p, data):
    flags = re.compile(p).flags
    chars = list(data)
    return [tuple((-1, -1) if x is None else x for x in g) for g in RM._finditer_scan(p, flags, chars, 0, len(chars))]


def test_matcher(full: bool):
    pats = repo_patterns()
    seeds = test_corpus()
    rnd = random.Random(1)
    alphabet = b"aAbcCzZ09 .,;:/\\'\"()[]{}<>^&|+-=_%#@!?*$~`\r\n\t\x00\x7f\x80\xffxXeEmMdDpPwWsShHlL"
    n = 0
    bad = []

    def check(p, data, with_regex=True):
        nonlocal n
        a = [_spans(m) for m in re.finditer(p, data)]
        c = _mine(p, data)
        n += 1
        if a != c:
            bad.append(("matcher!=re", p, data, a, c))
        if with_regex:
            b = [_spans(m) for m in regex.finditer(p, data)]
            if a != b:
                bad.append(("re!=regex", p, data, a, b))

    step = 1 if full else 4
    for name, p in pats.items():
        for s in seeds[::step]:
            check(p, s)
            b = bytearray(s)
            for _ in range(rnd.randint(1, 3)):
                if not b:
                    break
                i = rnd.randrange(len(b))
                r = rnd.random()
                if r < 0.4:
                    b[i] = rnd.choice(alphabet)
                elif r < 0.7:
                    del b[i]
                else:
                    b.insert(i, rnd.choice(alphabet))
            check(p, bytes(b))
        for _ in range(300 if full else 80):
            check(p, bytes(rnd.choice(alphabet) for _ in range(rnd.randint(0, 12))))
    for p in GENERIC_PATTERNS:
        for k in range(0, 6 if full else 5):
            for t in itertools.product(b"abcx\n", repeat=k):
                check(p, bytes(t), with_regex=False)
        for _ in range(200):
            check(p, bytes(rnd.choice(b"abcxAB \n1_") for _ in range(rnd.randint(0, 8))), with_regex=False)
    if bad:
        raise Fail(f"{len(bad)} matcher disagreements, first: {bad[0]!r}")
    return n


def run(full=False, quiet=False):
    t0 = time.time()
    res = {}
    for name, fn in [
        ("predicates", test_predicates),
        ("string_methods", test_string_methods),
        ("unquote", test_unquote_more),
        ("int", test_int),
        ("utf16", test_utf16),
        ("b64", test_b64),
        ("utf8", test_utf8),
        ("xor", test_xor),
        ("latin1_case", test_latin1_case),
        ("matcher", lambda: test_matcher(full)),
    ]:
        res[name] = fn()
    res["wall_s"] = round(time.time() - t0, 2)
    if not quiet:
        print("chx selftest ok", res)
    return res


if __name__ == "__main__":
    try:
        run(full="--full" in sys.argv)
    except Fail as e:
        print("CHX SELFTEST FAILED:", e)
        sys.exit(3)
