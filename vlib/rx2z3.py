"""
Layer D: regular-language queries about the repository's pattern constants (DESIGN 1.7).

The pattern (a bytes literal taken from the live module) is parsed with re._parser and translated to a z3
regular expression over characters 0..255.  Look-arounds and anchors are dropped, which OVER-approximates the
language -- sound for inclusion claims "every string the pattern/group can match satisfies P" (unsat = holds for
strings of every length).  A sat answer is only a candidate and is confirmed on the real `regex` module.
"""
from __future__ import annotations

import re
import re._parser as P  # type: ignore
from typing import Dict, Optional

import z3  # type: ignore


def _ch(c: int):
    return z3.Re(z3.StringVal(chr(c))) if c < 128 else z3.Re(z3.Unit(z3.CharVal(c)))


def _range(lo: int, hi: int):
    return z3.Range(chr(lo), chr(hi)) if hi < 128 else z3.Union(*[_ch(c) for c in range(lo, hi + 1)]) if hi - lo < 300 else None


def _set_to_re(chars):
    """chars: sorted list of ints -> z3 Re (union of ranges)"""
    if not chars:
        return z3.Empty(z3.ReSort(z3.StringSort()))
    parts = []
    start = prev = chars[0]
    for c in chars[1:]:
        if c == prev + 1:
            prev = c
            continue
        parts.append((start, prev))
        start = prev = c
    parts.append((start, prev))
    res = []
    for lo, hi in parts:
        if lo == hi:
            res.append(_ch(lo))
        elif hi < 128:
            res.append(z3.Range(chr(lo), chr(hi)))
        else:
            res.append(z3.Range(z3.Unit(z3.CharVal(lo)), z3.Unit(z3.CharVal(hi))))
    return res[0] if len(res) == 1 else z3.Union(*res)


def _class_chars(node, flags) -> Optional[set]:
    op, arg = node
    icase = bool(flags & re.IGNORECASE)

    def fold(s):
        if not icase:
            return s
        out = set(s)
        for c in s:
            if 65 <= c <= 90:
                out.add(c + 32)
            if 97 <= c <= 122:
                out.add(c - 32)
        return out

    ALL = set(range(256))
    if op is P.LITERAL:
        return fold({arg})
    if op is P.NOT_LITERAL:
        return ALL - fold({arg})
    if op is P.RANGE:
        return fold(set(range(arg[0], arg[1] + 1)))
    if op is P.ANY:
        return ALL if flags & re.DOTALL else ALL - {10}
    if op is P.CATEGORY:
        D = set(range(48, 58))
        S = {9, 10, 11, 12, 13, 32}
        W = D | set(range(65, 91)) | set(range(97, 123)) | {95}
        return {P.CATEGORY_DIGIT: D, P.CATEGORY_NOT_DIGIT: ALL - D, P.CATEGORY_SPACE: S, P.CATEGORY_NOT_SPACE: ALL - S,
                P.CATEGORY_WORD: W, P.CATEGORY_NOT_WORD: ALL - W}[arg]
    if op is P.IN:
        neg = bool(arg) and arg[0][0] is P.NEGATE
        acc = set()
        for t in (arg[1:] if neg else arg):
            acc |= _class_chars(t, flags)
        return ALL - acc if neg else acc
    return None


class Translated:
    def __init__(self):
        self.groups: Dict[int, object] = {}


def translate(pattern: bytes, flags: int = 0):
    parsed = P.parse(pattern, flags)
    eff = parsed.state.flags | flags
    tr = Translated()
    tr.whole = _seq(list(parsed), eff, tr)
    return tr


def _seq(items, flags, tr):
    parts = [_node(n, flags, tr) for n in items]
    parts = [p for p in parts if p is not None]
    if not parts:
        return z3.Re(z3.StringVal(""))
    return parts[0] if len(parts) == 1 else z3.Concat(*parts)


def _node(node, flags, tr):
    chars = _class_chars(node, flags)
    if chars is not None:
        return _set_to_re(sorted(chars))
    op, arg = node
    if op in (P.MAX_REPEAT, P.MIN_REPEAT):
        lo, hi, body = arg
        b = _seq(list(body), flags, tr)
        if hi == P.MAXREPEAT:
            if lo == 0:
                return z3.Star(b)
            if lo == 1:
                return z3.Plus(b)
            return z3.Concat(z3.Loop(b, lo, lo), z3.Star(b))
        return z3.Loop(b, lo, hi)
    if op is P.BRANCH:
        alts = [_seq(list(a), flags, tr) for a in arg[1]]
        return alts[0] if len(alts) == 1 else z3.Union(*alts)
    if op is P.SUBPATTERN:
        g, add, dele, sub = arg
        r = _seq(list(sub), (flags | add) & ~dele, tr)
        if g is not None:
            tr.groups[g] = r if g not in tr.groups else z3.Union(tr.groups[g], r)
        return r
    if op in (P.AT, P.ASSERT, P.ASSERT_NOT):
        return None  # dropped: over-approximation
    raise NotImplementedError(op)


def check_included(lang, pred_re, timeout_ms=60000):
    """is every string of `lang` in `pred_re`?  -> ('unsat', None) holds | ('sat', witness bytes) | ('unknown', None)"""
    s = z3.String("s")
    sol = z3.Solver()
    sol.set("timeout", timeout_ms)
    sol.add(z3.InRe(s, lang))
    sol.add(z3.Not(z3.InRe(s, pred_re)))
    r = sol.check()
    if r == z3.sat:
        w = sol.model()[s]
        try:
            txt = w.as_string()
        except Exception:
            txt = str(w)
        return "sat", txt
    return str(r), None


def sample(lang, n=5, timeout_ms=20000):
    """a few member strings (for validating the translation against the real regex)"""
    out = []
    s = z3.String("s")
    sol = z3.Solver()
    sol.set("timeout", timeout_ms)
    sol.add(z3.InRe(s, lang))
    for _ in range(n):
        if sol.check() != z3.sat:
            break
        v = sol.model()[s]
        out.append(v)
        sol.add(s != v)
    return out
